"""Stage probes: class-level wrappers around python_minifier internals (auxiliary invariants and evidence; the deciding oracles sit at the
API boundary). A refactoring that renames an internal turns the probe into "not attached" (reported, never a violation)."""
import builtins
import keyword

_state = {'installed': False, 'attached': False, 'records': []}


def install_renamer_hook():
    if _state['installed']:
        return _state['attached']
    _state['installed'] = True
    try:
        import importlib
        import python_minifier  # noqa: F401  (python_minifier.rename is shadowed by the function of that name: go through importlib)
        rn = importlib.import_module('python_minifier.rename.renamer')
        orig = rn.NameAssigner.__call__
        all_bindings = rn.all_bindings
        reservation_scope = rn.reservation_scope
    except Exception:
        return False

    def wrapped(self, module, prefix_globals, reserved_globals=None):
        before = []
        try:
            for ns, b in all_bindings(module):
                before.append((ns, b, b.name, bool(b.allow_rename), b.reserved))
        except Exception:
            before = None
        out = orig(self, module, prefix_globals, reserved_globals)
        rec = {'bindings': 0, 'renamed': 0, 'problems': []}
        if before is not None:
            try:
                reserved_words = set(keyword.kwlist) | set(dir(builtins))
                final = []
                for ns, b, name0, allow0, res0 in before:
                    rec['bindings'] += 1
                    if b.name != name0:
                        rec['renamed'] += 1
                        if not allow0:
                            rec['problems'].append('H2: binding %r had allow_rename False but became %r' % (name0, b.name))
                        if b.name in reserved_words:
                            rec['problems'].append('H3: binding %r renamed to the keyword / builtin %r' % (name0, b.name))
                        if prefix_globals and type(ns).__name__ == 'Module' and not str(b.name).startswith('_'):
                            rec['problems'].append('H4: module-level binding %r renamed to %r without underscore prefix' % (name0, b.name))
                    final.append((ns, b, name0))
                if len(final) <= 250:
                    scopes = [(ns, b, name0, reservation_scope(ns, b)) for ns, b, name0 in final]
                    for i in range(len(scopes)):
                        ns1, b1, n1, sc1 = scopes[i]
                        for j in range(i + 1, len(scopes)):
                            ns2, b2, n2, sc2 = scopes[j]
                            if b1.name is not None and b1.name == b2.name and n1 != n2 and (ns2 in sc1 or ns1 in sc2) and (b1.name != n1 or b2.name != n2):
                                rec['problems'].append('H1: bindings %r and %r with overlapping reservation scopes both became %r' % (n1, n2, b1.name))
            except Exception as e:
                rec['error'] = repr(e)
        _state['records'].append(rec)
        return out
    rn.NameAssigner.__call__ = wrapped
    _state['attached'] = True
    return True


def take_records():
    r = list(_state['records'])
    del _state['records'][:]
    return r
