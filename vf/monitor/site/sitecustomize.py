"""Harness-side instrumentation for CLI subprocesses; active only when PYMINIFY_VERIF=1.

 VF_OPEN_LOG=<file>    append one line per open(): "<mode>\t<path>"
 VF_FAIL_OPEN=<path>|<r or w>   raise OSError(EIO) when that path is opened for reading / writing (failpoint: the sandbox
                                runs as root, so chmod cannot make a file unreadable or unwritable)
"""
import os

if os.environ.get('PYMINIFY_VERIF') == '1':
    import builtins
    import errno
    import io

    _real_open = builtins.open
    _log = os.environ.get('VF_OPEN_LOG')
    _fail = os.environ.get('VF_FAIL_OPEN')
    _fail_path, _fail_mode = (None, None)
    if _fail and '|' in _fail:
        _fail_path, _fail_mode = _fail.rsplit('|', 1)
        _fail_path = os.path.abspath(_fail_path)

    def _open(file, mode='r', *args, **kwargs):
        try:
            if isinstance(file, (str, bytes)) or hasattr(file, '__fspath__'):
                p = os.path.abspath(os.fsdecode(file))
                writing = any(c in mode for c in 'wax+')
                if _log:
                    fd = os.open(_log, os.O_WRONLY | os.O_APPEND | os.O_CREAT, 0o644)
                    try:
                        os.write(fd, ('%s\t%s\n' % (mode, p)).encode('utf-8', 'surrogateescape'))
                    finally:
                        os.close(fd)
                if _fail_path is not None and p == _fail_path and ((_fail_mode == 'w') == writing):
                    raise OSError(errno.EIO, 'injected fault', p)
        except OSError:
            raise
        except Exception:
            pass
        return _real_open(file, mode, *args, **kwargs)

    builtins.open = _open
    io.open = _open
