"""Run the real command line tool (python -m python_minifier) in a scratch directory and observe it."""
import os
import subprocess
import sys

from vf import common

SITE_DIR = os.path.join(common.VERIF, 'vf', 'monitor', 'site')


def snapshot(root):
    """path -> ('f', bytes) | ('l', target) | ('d',)"""
    out = {}
    for dirpath, dirnames, filenames in os.walk(root, followlinks=False):
        for d in list(dirnames):
            p = os.path.join(dirpath, d)
            rel = os.path.relpath(p, root)
            if os.path.islink(p):
                out[rel] = ('l', os.readlink(p))
            else:
                out[rel] = ('d',)
        for f in filenames:
            p = os.path.join(dirpath, f)
            rel = os.path.relpath(p, root)
            if os.path.islink(p):
                out[rel] = ('l', os.readlink(p))
            else:
                try:
                    with open(p, 'rb') as fh:
                        out[rel] = ('f', fh.read())
                except OSError as e:
                    out[rel] = ('f?', str(e))
    return out


def run_cli(argv, cwd, stdin=None, env_extra=None, force_best_effort=None, timeout=60, monitor=False, python=None):
    """returns (returncode, stdout bytes, stderr bytes)"""
    env = common.clean_env()
    env['PYTHONPATH'] = common.REPO_SRC
    if monitor:
        env['PYTHONPATH'] = SITE_DIR + os.pathsep + common.REPO_SRC
        env['PYMINIFY_VERIF'] = '1'
    if force_best_effort is not None:
        env['PYMINIFY_FORCE_BEST_EFFORT'] = force_best_effort
    assert force_best_effort is not None or 'PYMINIFY_FORCE_BEST_EFFORT' not in env
    if env_extra:
        env.update(env_extra)
    p = subprocess.run([python or common.VENV_PY, '-W', 'ignore', '-m', 'python_minifier'] + list(argv), cwd=cwd, input=stdin if stdin is not None else b'',
                       stdout=subprocess.PIPE, stderr=subprocess.PIPE, env=env, timeout=timeout)
    return p.returncode, p.stdout, p.stderr
