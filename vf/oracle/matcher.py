"""O3 - tolerant parallel matcher: the reference model of what the documentation lets each option do.

compare(P_source, Q_source, opts) walks the parsed input P and parsed output Q in lock step and accepts a pair of nodes iff they
are equal or related by a rewrite that an *enabled* option documents, with side conditions evaluated on P.

Step 1  normalise both trees under the enabled options (same function on both sides, P-side facts passed in):
        combine_imports, remove_pass, remove_literal_statements, remove_asserts, remove_debug, remove_explicit_return_none,
        remove_object_base, convert_posargs_to_args, constant_folding.
Step 2  lock-step walk with the asymmetric rules: exception brackets, annotation removal, hoisted literals (Constant vs Name),
        alias prologues, import-as renames; every identifier pair is recorded.
Step 3  binding relation from the recorded pairs (scope models from vf.oracle.scopes for both normalised trees).
"""
import ast
import builtins
import copy
import math

from vf.oracle import scopes as S

BUILTIN_NAMES = set(dir(builtins))
BUILTIN_EXCEPTIONS = set(n for n in dir(builtins) if isinstance(getattr(builtins, n), type) and issubclass(getattr(builtins, n), BaseException))
FUNC = (ast.FunctionDef, ast.AsyncFunctionDef)
SCOPE_NODES = (ast.FunctionDef, ast.AsyncFunctionDef, ast.Lambda, ast.ClassDef, ast.ListComp, ast.SetComp, ast.DictComp, ast.GeneratorExp)


def ckey(v):
    """constants compared by (type, repr)"""
    if isinstance(v, (tuple, frozenset)):
        return (type(v).__name__,) + tuple(ckey(x) for x in v)
    try:
        return (type(v).__name__, repr(v))
    except ValueError:
        return (type(v).__name__, 'bits%d' % v.bit_length(), v % 2305843009213693951)


# =====================================================================================================================
# Step 1: normal forms
# =====================================================================================================================
def is_literal_stmt(n):
    return isinstance(n, ast.Expr) and isinstance(n.value, ast.Constant)


def is_docstring_stmt(n):
    return isinstance(n, ast.Expr) and isinstance(n.value, ast.Constant) and isinstance(n.value.value, str)


def env_lookup(env, name):
    for d in reversed(env or []):
        if name in d:
            return d[name]
    return None


def debug_test(test, env=None):
    """the four documented truthy forms of a __debug__ test. `env` = leading `Name = True/False` assignments of the enclosing
    function/module bodies: an output that kept the statement may spell the constant through an introduced alias."""
    if isinstance(test, ast.Name) and test.id == '__debug__':
        return True
    if isinstance(test, ast.Compare) and len(test.ops) == 1 and isinstance(test.left, ast.Name) and test.left.id == '__debug__':
        c = test.comparators[0]
        if isinstance(c, ast.Name) and env:
            c = env_lookup(env, c.id) or c
        if isinstance(c, ast.Constant):
            if isinstance(test.ops[0], ast.Is) and c.value is True:
                return True
            if isinstance(test.ops[0], ast.IsNot) and c.value is False:
                return True
            if isinstance(test.ops[0], ast.Eq) and c.value is True:
                return True
    return False


class Folder(ast.NodeTransformer):
    """evaluate maximal literal-only arithmetic subtrees (both sides) - what constant folding may do at most"""
    MAXBITS = 20000

    def _num(self, n):
        return isinstance(n, ast.Constant) and isinstance(n.value, (int, float, complex, bool)) or (isinstance(n, ast.Constant) and n.value is None)

    def visit_BinOp(self, node):
        self.generic_visit(node)
        if self._num(node.left) and self._num(node.right):
            v = self._eval(node)
            if v is not None:
                return ast.copy_location(ast.Constant(value=v[0]), node)
        return node

    def visit_UnaryOp(self, node):
        self.generic_visit(node)
        if self._num(node.operand) and isinstance(node.op, (ast.USub, ast.UAdd, ast.Invert)):
            # only to put  -<literal>  and  Constant(negative)  into one form: evaluate sign operators on literals
            v = self._eval(node)
            if v is not None:
                return ast.copy_location(ast.Constant(value=v[0]), node)
        return node

    def visit_MatchValue(self, node):
        return node     # patterns are not expressions

    def _eval(self, node):
        if isinstance(node, ast.BinOp):
            l, r = node.left.value, node.right.value
            if isinstance(node.op, ast.Pow):
                if not isinstance(r, (int, float, bool)) or isinstance(r, (int, bool)) and abs(r) > 64:
                    return None
                if isinstance(l, int) and l.bit_length() > 512:
                    return None
            if isinstance(node.op, ast.LShift) and isinstance(r, int) and r > 4096:
                return None
            if isinstance(node.op, ast.Mult):
                for x in (l, r):
                    if isinstance(x, int) and x.bit_length() > self.MAXBITS:
                        return None
        try:
            v = eval(compile(ast.Expression(body=node), 'fold-model', 'eval'), {'__builtins__': {}}, {})
        except Exception:
            return None
        if isinstance(v, float) and math.isnan(v):
            return None
        if isinstance(v, complex) and (math.isnan(v.real) or math.isnan(v.imag)):
            return None
        if not isinstance(v, (int, float, complex, bool)):
            return None
        if isinstance(v, int) and v.bit_length() > self.MAXBITS:
            return None
        return (v,)


LITERAL_NODES = (ast.BinOp, ast.UnaryOp, ast.Constant, ast.operator, ast.unaryop, ast.Load)


def closed_literal(node, allow_names=False):
    for n in ast.walk(node):
        if isinstance(n, LITERAL_NODES):
            if isinstance(n, ast.Constant) and not (isinstance(n.value, (int, float, complex, bool)) or n.value is None):
                return False
            continue
        if allow_names and isinstance(n, ast.Name) and isinstance(n.ctx, ast.Load):
            continue
        return False
    return True


def eval_literal(node, env=None):
    """value of a closed literal arithmetic tree as a 1-tuple, or None (raises / NaN / too expensive)"""
    for n in ast.walk(node):
        if isinstance(n, ast.BinOp) and isinstance(n.op, (ast.Pow, ast.LShift, ast.Mult)):
            r = n.right
            if isinstance(n.op, ast.Pow) and not (isinstance(r, ast.Constant) and isinstance(r.value, (int, float, bool)) and abs(r.value) <= 64):
                if not (isinstance(r, ast.UnaryOp) and isinstance(r.operand, ast.Constant) and isinstance(r.operand.value, (int, float)) and abs(r.operand.value) <= 64):
                    return None
            if isinstance(n.op, ast.LShift) and not (isinstance(r, ast.Constant) and isinstance(r.value, int) and r.value <= 4096):
                return None
    try:
        expr = ast.Expression(body=copy.deepcopy(node))
        ast.fix_missing_locations(expr)
        v = eval(compile(expr, 'fold-model', 'eval'), {'__builtins__': {}}, dict(env or {}))
    except Exception:
        return None
    if isinstance(v, float) and math.isnan(v):
        return None
    if isinstance(v, complex) and (math.isnan(v.real) or math.isnan(v.imag)):
        return None
    if not isinstance(v, (int, float, complex, bool)):
        return None
    if isinstance(v, int) and v.bit_length() > 20000:
        return None
    return (v,)


class Normaliser(object):
    def __init__(self, opts, facts):
        self.o = opts
        self.facts = facts      # {'protect_module_doc': bool}
        self.env = [{}]

    def run(self, tree, copy_tree=True):
        if copy_tree:
            tree = copy.deepcopy(tree)
        self.module(tree)
        if self.o.get('convert_posargs_to_args'):
            for n in ast.walk(tree):
                if isinstance(n, ast.arguments):
                    self.posargs(n)
        return tree

    @staticmethod
    def leading_bool_aliases(body):
        d = {}
        for st in body:
            if is_docstring_stmt(st) or (isinstance(st, ast.ImportFrom) and st.module == '__future__'):
                continue
            if isinstance(st, ast.Assign) and len(st.targets) == 1 and isinstance(st.targets[0], ast.Name) and isinstance(st.value, ast.Constant):
                d[st.targets[0].id] = st.value
                continue
            if isinstance(st, ast.Assign) and len(st.targets) == 1 and isinstance(st.targets[0], ast.Name) and isinstance(st.value, ast.Name):
                continue
            break
        return d

    def module(self, tree):
        self.env = [self.leading_bool_aliases(tree.body)]
        protect = None
        if self.facts.get('protect_module_doc') and tree.body and is_docstring_stmt(tree.body[0]):
            protect = tree.body[0]
        tree.body = self.suite(tree.body, tree, protect=protect)

    def items(self, body, protect=None):
        """statement list under the enabled removals (no placeholder logic)"""
        o = self.o
        out = []
        for st in body:
            if o.get('remove_pass') and isinstance(st, ast.Pass):
                continue
            if o.get('remove_literal_statements') and is_literal_stmt(st) and st is not protect:
                continue
            if o.get('remove_literal_statements') and isinstance(st, ast.Expr) and isinstance(st.value, ast.Name) and env_lookup(self.env, st.value.id) is not None:
                continue        # a literal statement the output kept, spelled through an introduced alias
            if o.get('remove_asserts') and isinstance(st, ast.Assert):
                continue
            if (o.get('remove_asserts') or o.get('remove_debug')) and is_literal_stmt(st) and type(st.value.value) is int and st.value.value == 0 and len(body) > 1:
                continue        # a placeholder that outlived its suite: `if __debug__: ... else: assert x` leaves `0` once both removals have run
            if o.get('remove_debug') and isinstance(st, ast.If) and debug_test(st.test, self.env):
                sub = self.items(st.orelse)
                if self.lone_zero(sub):
                    sub = []        # an output that kept the statement holds placeholders in its branches
                out.extend(sub)
                continue
            if o.get('combine_imports') and isinstance(st, ast.Import) and len(st.names) > 1:
                for a in st.names:
                    out.append(ast.copy_location(ast.Import(names=[a]), st))
                continue
            if o.get('combine_imports') and isinstance(st, ast.ImportFrom) and len(st.names) > 1:
                for a in st.names:
                    out.append(ast.copy_location(ast.ImportFrom(module=st.module, names=[a], level=st.level), st))
                continue
            if o.get('remove_explicit_return_none') and isinstance(st, ast.Return) and isinstance(st.value, ast.Constant) and st.value.value is None:
                st.value = None
            self.stmt(st)
            out.append(st)
        return out

    @staticmethod
    def marker():
        return ast.Expr(value=ast.Constant(value='<EMPTY-SUITE>'))

    @staticmethod
    def lone_zero(out):
        return len(out) == 1 and is_literal_stmt(out[0]) and type(out[0].value.value) is int and out[0].value.value == 0

    def suite(self, body, parent, protect=None):
        out = self.items(body, protect)
        # docstring guard: when the statements in front of a string statement were removed, the implementation keeps a `0` there so that the
        # string does not become the docstring (nameeng.docstring_changes checks the docstrings themselves on the pristine trees)
        if isinstance(parent, (ast.Module, ast.ClassDef) + FUNC) and self.any_remover() and len(out) >= 2 and self.lone_zero(out[:1]) and is_docstring_stmt(out[1]):
            out = out[1:]
        # placeholder normal form: a lone `0` stands for "this suite is empty" when a statement-removing option is on
        if not isinstance(parent, ast.Module):
            if self.lone_zero(out) and self.any_remover():
                out = []
            if not out:
                out = [self.marker()]
        return out

    def any_remover(self):
        o = self.o
        return any(o.get(k) for k in ('remove_pass', 'remove_literal_statements', 'remove_asserts', 'remove_debug', 'remove_explicit_return_none'))

    def stmt(self, st):
        o = self.o
        if isinstance(st, FUNC):
            self.env.append(self.leading_bool_aliases(st.body))
            st.body = self.suite(st.body, st)
            self.env.pop()
            if o.get('remove_explicit_return_none'):
                while st.body and isinstance(st.body[-1], ast.Return) and st.body[-1].value is None:
                    st.body.pop()
                if not st.body or self.lone_zero(st.body):
                    st.body = [self.marker()]
        elif isinstance(st, ast.ClassDef):
            st.body = self.suite(st.body, st)
            if o.get('remove_object_base'):
                st.bases = [b for b in st.bases if not (isinstance(b, ast.Name) and b.id == 'object')]
        elif isinstance(st, (ast.For, ast.AsyncFor, ast.While, ast.If)):
            st.body = self.suite(st.body, st)
            if st.orelse:
                st.orelse = self.suite(st.orelse, st)
        elif isinstance(st, (ast.With, ast.AsyncWith)):
            st.body = self.suite(st.body, st)
        elif isinstance(st, (ast.Try, getattr(ast, 'TryStar', ast.Try))):
            st.body = self.suite(st.body, st)
            for h in st.handlers:
                h.body = self.suite(h.body, h)
            if st.orelse:
                st.orelse = self.suite(st.orelse, st)
            if st.finalbody:
                st.finalbody = self.suite(st.finalbody, st)
        elif isinstance(st, getattr(ast, 'Match', ())):
            for c in st.cases:
                c.body = self.suite(c.body, c)

    def posargs(self, args):
        if getattr(args, 'posonlyargs', None):
            for a in args.posonlyargs:
                a._vf_posonly = True        # still positional-only as far as the *input* is concerned
            args.args = args.posonlyargs + args.args
            args.posonlyargs = []


# =====================================================================================================================
# Step 2: lock-step walk
# =====================================================================================================================
class Report(object):
    def __init__(self):
        self.diffs = []            # structural differences: dict(path, kind, p, q)
        self.pairs = []            # (p_occ_key, q_occ_key, kind)
        self.rules = {}            # rule name -> hits
        self.const_alias_uses = [] # (P constant value, q occurrence key, path)
        self.alias_blocks = []     # (q scope node, [alias stmts])
        self.interface = []        # interface spelling differences
        self.bracket_uses = []
        self.fold_uses = []        # (P value, Q subtree, path)
        self.scope_pairs = []      # (P scope node key, Q scope node key)

    def rule(self, name, n=1):
        self.rules[name] = self.rules.get(name, 0) + n

    def diff(self, path, kind, p=None, q=None):
        if len(self.diffs) < 40:
            self.diffs.append({'path': path, 'kind': kind, 'p': short(p), 'q': short(q)})


def short(x):
    if x is None:
        return None
    if isinstance(x, ast.AST):
        try:
            return type(x).__name__ + ':' + ast.unparse(x)[:80]
        except Exception:
            return type(x).__name__
    return repr(x)[:80]


SKIP_FIELDS = ('lineno', 'col_offset', 'end_lineno', 'end_col_offset', 'kind', 'type_comment', 'type_ignores', 'ctx')


class Matcher(object):
    def __init__(self, opts, pmodel_raw):
        self.o = opts
        self.r = Report()
        self.class_stack = []       # P-side class context: dict(protected=bool)
        self.pmodel_raw = pmodel_raw
        self.in_trial = False

    # ---- helpers
    def ident(self, pnode, pkey, qnode, qkey, kind):
        self.r.pairs.append((pkey, qkey, kind))

    def is_alias_stmt(self, st):
        return isinstance(st, ast.Assign) and len(st.targets) == 1 and isinstance(st.targets[0], ast.Name) and \
            (isinstance(st.value, ast.Constant) or isinstance(st.value, ast.Name))

    def prologue_len(self, body):
        i = 0
        while i < len(body) and ((isinstance(body[i], ast.ImportFrom) and body[i].module == '__future__') or is_docstring_stmt(body[i])):
            i += 1
        return i

    def body(self, pbody, qbody, path, qscope_node, allow_alias):
        """statement lists; Q may carry introduced aliases right after docstrings / __future__ imports"""
        k = len(qbody) - len(pbody)
        placeholder = lambda b: len(b) == 1 and isinstance(b[0], ast.Expr) and isinstance(b[0].value, ast.Constant) and b[0].value.value == '<EMPTY-SUITE>'
        if allow_alias and placeholder(pbody) and not placeholder(qbody):
            # P's suite is (normal-form) empty, Q's holds only aliases
            if all(self.is_alias_stmt(s) for s in qbody):
                self.r.alias_blocks.append((qscope_node, list(qbody), path))
                self.r.rule('alias-block')
                return
        if allow_alias and k > 0:
            i0 = self.prologue_len(qbody)
            # P's own leading docstring / future-import run is at most as long
            j0 = self.prologue_len(pbody)
            i0 = min(i0, j0) if j0 < i0 else i0
            block = qbody[i0:i0 + k]
            if all(self.is_alias_stmt(s) for s in block):
                self.r.alias_blocks.append((qscope_node, block, path))
                self.r.rule('alias-block')
                qbody = qbody[:i0] + qbody[i0 + k:]
                k = 0
        if k != 0:
            self.r.diff(path, 'statement-count', '%d statements: %s' % (len(pbody), [type(s).__name__ for s in pbody][:12]),
                        '%d statements: %s' % (len(qbody), [type(s).__name__ for s in qbody][:12]))
            # align as far as possible to report the first differing statement
            for i, (a, b) in enumerate(zip(pbody, qbody)):
                if type(a) is not type(b):
                    self.r.diff('%s[%d]' % (path, i), 'statement-kind', a, b)
                    break
            return
        for i, (a, b) in enumerate(zip(pbody, qbody)):
            self.node(a, b, '%s[%d]' % (path, i))

    # ---- generic node comparison
    def node(self, p, q, path):
        if p is None and q is None:
            return
        if isinstance(p, list) or isinstance(q, list):
            if not (isinstance(p, list) and isinstance(q, list)) or len(p) != len(q):
                self.r.diff(path, 'list-length', p if not isinstance(p, list) else len(p), q if not isinstance(q, list) else len(q))
                return
            for i, (a, b) in enumerate(zip(p, q)):
                self.node(a, b, '%s[%d]' % (path, i))
            return
        if not isinstance(p, ast.AST) or not isinstance(q, ast.AST):
            if ckey(p) != ckey(q) if not (isinstance(p, ast.AST) or isinstance(q, ast.AST)) else True:
                self.r.diff(path, 'value', p, q)
            return
        if self.o.get('constant_folding') and isinstance(p, (ast.BinOp, ast.UnaryOp)) and not self.in_trial and closed_literal(p):
            # fold rule: P's literal arithmetic may be replaced by its value (possibly through an alias); try plain structure first
            snap = (len(self.r.diffs), len(self.r.pairs), len(self.r.const_alias_uses), dict(self.r.rules))
            self.in_trial = True
            try:
                self.node(p, q, path)
            finally:
                self.in_trial = False
            if len(self.r.diffs) == snap[0]:
                return
            del self.r.diffs[snap[0]:]
            del self.r.pairs[snap[1]:]
            del self.r.const_alias_uses[snap[2]:]
            self.r.rules = snap[3]
            vp = eval_literal(p)
            if vp is not None and closed_literal(q, allow_names=True):
                self.r.fold_uses.append((vp[0], q, path))
                self.r.rule('folded')
                return
            # not evaluable as a whole (raises / NaN): the rewrite may still apply to sub-expressions
        if isinstance(p, SCOPE_NODES) and type(p) is type(q):
            self.r.scope_pairs.append((S.nkey(p), S.nkey(q)))
        m = getattr(self, 'm_' + type(p).__name__, None)
        if m is not None:
            if m(p, q, path):
                return
        if type(p) is not type(q):
            # hoisted literal: P constant, Q name
            if isinstance(p, ast.Constant) and isinstance(q, ast.Name) and isinstance(q.ctx, ast.Load):
                self.r.const_alias_uses.append((p.value, (S.nkey(q), 'id'), path))
                self.r.rule('hoisted-literal-use')
                return
            self.r.diff(path, 'node-class', p, q)
            return
        self.fields(p, q, path)

    def fields(self, p, q, path, skip=()):
        for f in p._fields:
            if f in SKIP_FIELDS or f in skip:
                continue
            a = getattr(p, f, None)
            b = getattr(q, f, None)
            if f == 'ctx':
                continue
            self.node(a, b, path + '.' + f) if isinstance(a, (ast.AST, list)) or isinstance(b, (ast.AST, list)) else self.scalar(a, b, path + '.' + f, p, q, f)
        if hasattr(p, 'ctx') and type(p.ctx) is not type(getattr(q, 'ctx', None)):
            self.r.diff(path + '.ctx', 'ctx', p.ctx, getattr(q, 'ctx', None))

    def scalar(self, a, b, path, p, q, f):
        if ckey(a) != ckey(b):
            self.r.diff(path, 'value', a, b)

    # ---- specific nodes
    def m_Module(self, p, q, path):
        self.body(p.body, q.body, 'module', q, True)
        return True

    def m_Name(self, p, q, path):
        if not isinstance(q, ast.Name):
            return False
        if type(p.ctx) is not type(q.ctx):
            self.r.diff(path, 'ctx', p, q)
        self.ident(p, (S.nkey(p), 'id'), q, (S.nkey(q), 'id'), 'name')
        return True

    def m_Constant(self, p, q, path):
        if isinstance(q, ast.Constant):
            if ckey(p.value) != ckey(q.value):
                self.r.diff(path, 'constant', p, q)
            return True
        return False

    def m_Attribute(self, p, q, path):
        if not isinstance(q, ast.Attribute):
            return False
        if p.attr != q.attr:
            self.r.interface.append({'kind': 'attribute', 'p': p.attr, 'q': q.attr, 'path': path})
            self.r.diff(path + '.attr', 'attribute-name', p.attr, q.attr)
        self.node(p.value, q.value, path + '.value')
        return True

    def m_keyword(self, p, q, path):
        if not isinstance(q, ast.keyword):
            return False
        if p.arg != q.arg:
            self.r.interface.append({'kind': 'call-keyword', 'p': p.arg, 'q': q.arg, 'path': path})
            self.r.diff(path + '.arg', 'keyword-name', p.arg, q.arg)
        self.node(p.value, q.value, path + '.value')
        return True

    def _funcdef(self, p, q, path):
        if type(p) is not type(q):
            return False
        self.ident(p, (S.nkey(p), 'name'), q, (S.nkey(q), 'name'), 'def')
        self.node(p.decorator_list, q.decorator_list, path + '.decorator_list')
        self.arguments(p.args, q.args, path + '.args', p)
        if p.returns is not None and q.returns is None and self.o.get('remove_return_annotations'):
            self.r.rule('return-annotation-removed')
        else:
            self.node(p.returns, q.returns, path + '.returns')
        if getattr(p, 'type_params', None) or getattr(q, 'type_params', None):
            self.node(getattr(p, 'type_params', []), getattr(q, 'type_params', []), path + '.type_params')
        saved = self.class_stack
        self.class_stack = []
        self.body(p.body, q.body, path + '.body', q, True)
        self.class_stack = saved
        return True

    m_FunctionDef = _funcdef
    m_AsyncFunctionDef = _funcdef

    def m_Lambda(self, p, q, path):
        if not isinstance(q, ast.Lambda):
            return False
        self.arguments(p.args, q.args, path + '.args', p)
        saved = self.class_stack
        self.class_stack = []
        self.node(p.body, q.body, path + '.body')
        self.class_stack = saved
        return True

    def arguments(self, p, q, path, owner):
        for f in ('posonlyargs', 'args', 'kwonlyargs'):
            a, b = getattr(p, f, []), getattr(q, f, [])
            if len(a) != len(b):
                self.r.diff(path + '.' + f, 'parameter-count', len(a), len(b))
                continue
            for i, (x, y) in enumerate(zip(a, b)):
                self.arg(x, y, '%s.%s[%d]' % (path, f, i))
        for f in ('vararg', 'kwarg'):
            x, y = getattr(p, f), getattr(q, f)
            if (x is None) != (y is None):
                self.r.diff(path + '.' + f, 'parameter', x, y)
            elif x is not None:
                self.arg(x, y, path + '.' + f)
        self.node(p.defaults, q.defaults, path + '.defaults')
        self.node(p.kw_defaults, q.kw_defaults, path + '.kw_defaults')

    def arg(self, p, q, path):
        self.ident(p, (S.nkey(p), 'arg'), q, (S.nkey(q), 'arg'), 'param')
        if p.annotation is not None and q.annotation is None and self.o.get('remove_argument_annotations'):
            self.r.rule('argument-annotation-removed')
        else:
            self.node(p.annotation, q.annotation, path + '.annotation')

    def class_protected(self, p):
        """P-side: dataclass decorator (documented spellings) or NamedTuple / TypedDict base"""
        for d in p.decorator_list:
            f = d.func if isinstance(d, ast.Call) else d
            if isinstance(f, ast.Name) and f.id == 'dataclass':
                return True
            if isinstance(f, ast.Attribute) and f.attr == 'dataclass':
                return True
        for b in p.bases:
            if isinstance(b, ast.Name) and b.id in ('NamedTuple', 'TypedDict'):
                return True
            if isinstance(b, ast.Attribute) and b.attr in ('NamedTuple', 'TypedDict'):
                return True
        return False

    def m_ClassDef(self, p, q, path):
        if not isinstance(q, ast.ClassDef):
            return False
        self.ident(p, (S.nkey(p), 'name'), q, (S.nkey(q), 'name'), 'classdef')
        self.node(p.decorator_list, q.decorator_list, path + '.decorator_list')
        self.node(p.bases, q.bases, path + '.bases')
        self.node(p.keywords, q.keywords, path + '.keywords')
        if getattr(p, 'type_params', None) or getattr(q, 'type_params', None):
            self.node(getattr(p, 'type_params', []), getattr(q, 'type_params', []), path + '.type_params')
        self.class_stack = self.class_stack + [{'protected': self.class_protected(p)}]
        self.body(p.body, q.body, path + '.body', q, False)
        self.class_stack = self.class_stack[:-1]
        return True

    def m_AnnAssign(self, p, q, path):
        o = self.o
        in_class = bool(self.class_stack)     # nearest enclosing *scope* is a class (functions/lambdas reset the stack)
        protected = in_class and self.class_stack[-1]['protected']
        enabled = o.get('remove_class_attribute_annotations') if in_class else o.get('remove_variable_annotations')
        if isinstance(q, ast.AnnAssign):
            self.node(p.target, q.target, path + '.target')
            self.node(p.value, q.value, path + '.value')
            if p.value is None and enabled and not protected and isinstance(q.annotation, ast.Constant) and not (isinstance(p.annotation, ast.Constant) and ckey(p.annotation.value) == ckey(q.annotation.value)):
                self.r.rule('annotation-replaced-by-constant')
            elif p.value is None and isinstance(q.annotation, ast.Constant) and not (isinstance(p.annotation, ast.Constant) and ckey(p.annotation.value) == ckey(q.annotation.value)):
                self.r.diff(path, 'annotation-removed-where-not-allowed', p, 'class-attribute=%s protected=%s option-enabled=%s' % (in_class, protected, bool(enabled)))
            else:
                self.node(p.annotation, q.annotation, path + '.annotation')
            if p.simple != q.simple:
                self.r.diff(path + '.simple', 'value', p.simple, q.simple)
            return True
        if isinstance(q, ast.Assign) and p.value is not None and len(q.targets) == 1:
            if enabled and not protected:
                self.r.rule('annotation-removed:' + ('class-attribute' if in_class else 'variable'))
            else:
                self.r.diff(path, 'annotation-removed-where-not-allowed',
                            p, 'class-attribute=%s protected=%s option-enabled=%s' % (in_class, protected, bool(enabled)))
            self.node(p.target, q.targets[0], path + '.target')
            self.node(p.value, q.value, path + '.value')
            return True
        return False

    def m_Raise(self, p, q, path):
        if not isinstance(q, ast.Raise):
            return False
        for f in ('exc', 'cause'):
            a, b = getattr(p, f), getattr(q, f)
            if isinstance(a, ast.Call) and not a.args and not a.keywords and isinstance(a.func, ast.Name) and not isinstance(b, ast.Call) and b is not None:
                # brackets removed: decided in step 3 (needs name resolution on P)
                self.r.bracket_uses.append(((S.nkey(a.func), 'id'), a.func.id, path + '.' + f))
                self.node(a.func, b, path + '.' + f)
            else:
                self.node(a, b, path + '.' + f)
        return True

    def m_Import(self, p, q, path):
        if not isinstance(q, ast.Import) or len(p.names) != len(q.names):
            return False
        for i, (a, b) in enumerate(zip(p.names, q.names)):
            self.alias(a, b, '%s.names[%d]' % (path, i), dotted_binds_top=True)
        return True

    def m_ImportFrom(self, p, q, path):
        if not isinstance(q, ast.ImportFrom) or len(p.names) != len(q.names):
            return False
        if p.module != q.module or (p.level or 0) != (q.level or 0):
            self.r.interface.append({'kind': 'import-module', 'p': p.module, 'q': q.module, 'path': path})
            self.r.diff(path, 'import-module', p.module, q.module)
        for i, (a, b) in enumerate(zip(p.names, q.names)):
            self.alias(a, b, '%s.names[%d]' % (path, i), dotted_binds_top=False)
        return True

    def alias(self, a, b, path, dotted_binds_top):
        if a.name != b.name:
            self.r.interface.append({'kind': 'imported-name', 'p': a.name, 'q': b.name, 'path': path})
            self.r.diff(path, 'imported-name', a.name, b.name)
            return
        if a.name == '*':
            return
        if dotted_binds_top and '.' in a.name and a.asname is None and b.asname is not None:
            self.r.diff(path, 'dotted-import-renamed', a, b)      # `import a.b as c` binds a.b, not a
            return
        self.ident(a, (S.nkey(a), 'bound'), b, (S.nkey(b), 'bound'), 'import')

    def m_ExceptHandler(self, p, q, path):
        if not isinstance(q, ast.ExceptHandler):
            return False
        self.node(p.type, q.type, path + '.type')
        if (p.name is None) != (q.name is None):
            self.r.diff(path + '.name', 'value', p.name, q.name)
        elif p.name is not None:
            self.ident(p, (S.nkey(p), 'name'), q, (S.nkey(q), 'name'), 'except')
        self.node(p.body, q.body, path + '.body')
        return True

    def _names_stmt(self, p, q, path):
        if type(p) is not type(q) or len(p.names) != len(q.names):
            return False
        for i in range(len(p.names)):
            self.ident(p, (S.nkey(p), 'names', i), q, (S.nkey(q), 'names', i), 'declaration')
        return True

    m_Global = _names_stmt
    m_Nonlocal = _names_stmt

    def m_MatchAs(self, p, q, path):
        if not isinstance(q, ast.MatchAs):
            return False
        self.node(p.pattern, q.pattern, path + '.pattern')
        if (p.name is None) != (q.name is None):
            self.r.diff(path + '.name', 'value', p.name, q.name)
        elif p.name is not None:
            self.ident(p, (S.nkey(p), 'name'), q, (S.nkey(q), 'name'), 'match')
        return True

    def m_MatchStar(self, p, q, path):
        if not isinstance(q, ast.MatchStar):
            return False
        if (p.name is None) != (q.name is None):
            self.r.diff(path + '.name', 'value', p.name, q.name)
        elif p.name is not None:
            self.ident(p, (S.nkey(p), 'name'), q, (S.nkey(q), 'name'), 'match')
        return True

    def m_MatchMapping(self, p, q, path):
        if not isinstance(q, ast.MatchMapping):
            return False
        self.node(p.keys, q.keys, path + '.keys')
        self.node(p.patterns, q.patterns, path + '.patterns')
        if (p.rest is None) != (q.rest is None):
            self.r.diff(path + '.rest', 'value', p.rest, q.rest)
        elif p.rest is not None:
            self.ident(p, (S.nkey(p), 'rest'), q, (S.nkey(q), 'rest'), 'match')
        return True

    def m_MatchClass(self, p, q, path):
        if not isinstance(q, ast.MatchClass):
            return False
        if list(p.kwd_attrs) != list(q.kwd_attrs):
            self.r.interface.append({'kind': 'pattern-keyword', 'p': p.kwd_attrs, 'q': q.kwd_attrs, 'path': path})
            self.r.diff(path + '.kwd_attrs', 'keyword-name', p.kwd_attrs, q.kwd_attrs)
        self.node(p.cls, q.cls, path + '.cls')
        self.node(p.patterns, q.patterns, path + '.patterns')
        self.node(p.kwd_patterns, q.kwd_patterns, path + '.kwd_patterns')
        return True

    def m_MatchValue(self, p, q, path):
        # no literal may be replaced by a name inside a pattern
        if isinstance(q, ast.MatchValue) and isinstance(p.value, ast.Constant) and isinstance(q.value, ast.Name):
            self.r.diff(path, 'literal-replaced-inside-pattern', p, q)
            return True
        return False

    def m_JoinedStr(self, p, q, path):
        if not isinstance(q, ast.JoinedStr):
            return False
        if len(p.values) != len(q.values):
            self.r.diff(path, 'fstring-parts', len(p.values), len(q.values))
            return True
        for i, (a, b) in enumerate(zip(p.values, q.values)):
            if isinstance(a, ast.Constant) and not isinstance(b, ast.Constant):
                self.r.diff('%s.values[%d]' % (path, i), 'fstring-text-replaced', a, b)
            else:
                self.node(a, b, '%s.values[%d]' % (path, i))
        return True

    def m_For(self, p, q, path):
        return self._compound(p, q, path)

    def _compound(self, p, q, path):
        if type(p) is not type(q):
            return False
        for f in p._fields:
            if f in SKIP_FIELDS:
                continue
            a, b = getattr(p, f, None), getattr(q, f, None)
            if f in ('body', 'orelse', 'finalbody') and isinstance(a, list):
                if not a and not b:
                    continue
                self.body(a, b, path + '.' + f, q, False)
            else:
                self.node(a, b, path + '.' + f)
        return True

    m_AsyncFor = _compound
    m_While = _compound
    m_If = _compound
    m_With = _compound
    m_AsyncWith = _compound
    m_Try = _compound
    m_TryStar = _compound
    m_match_case = _compound

    def m_Expr(self, p, q, path):
        if isinstance(q, ast.Expr) and isinstance(p.value, ast.Constant) and isinstance(p.value.value, (str, bytes)) and not isinstance(q.value, ast.Constant):
            self.r.diff(path, 'docstring-replaced-by-name', p, q)     # a string statement (docstring position) is never hoisted
            return True
        return False

    def m_Assign(self, p, q, path):
        # a literal may not be replaced inside a direct `__slots__ = ...` class assignment
        if isinstance(q, ast.Assign) and self.class_stack and any(isinstance(t, ast.Name) and t.id == '__slots__' for t in p.targets):
            before = len(self.r.const_alias_uses)
            self.fields(p, q, path)
            if len(self.r.const_alias_uses) > before:
                self.r.diff(path, 'literal-replaced-inside-__slots__', p, q)
            return True
        return False


# =====================================================================================================================
# Step 3: binding relation
# =====================================================================================================================
class Result(object):
    pass


def p_facts(ptree):
    names_doc = any(isinstance(n, ast.Name) and n.id == '__doc__' for n in ast.walk(ptree))
    return {'protect_module_doc': names_doc}


def compare(psrc, qsrc, opts, ptree=None, qtree=None):
    """returns Result with .diffs .problems (binding relation) .interface .aliases .rules .pairs_info .inconclusive"""
    res = Result()
    res.inconclusive = []
    ptree = ptree or ast.parse(psrc)
    qtree = qtree or ast.parse(qsrc)
    facts = p_facts(ptree)
    norm = Normaliser(opts, facts)
    # fresh parses are cheaper than deep copies; the caller's trees stay untouched
    pn = norm.run(ast.parse(psrc), copy_tree=False)
    qn = norm.run(ast.parse(qsrc), copy_tree=False)
    # scope models come from pristine parses (true semantics, including bindings inside statements the normal form drops);
    # nodes are identified by position, which the normalised parses share
    pm_ = S.resolve(ptree)
    qm_ = S.resolve(qtree)
    pm_norm = S.resolve(pn)     # what the input's names resolve to once the removable statements are gone (used only for bindings that vanish with them)
    m = Matcher(opts, None)
    m.node(pn, qn, 'module')
    rep = m.r
    res.report = rep
    res.diffs = list(rep.diffs)
    res.rules = dict(rep.rules)
    res.interface = list(rep.interface)
    res.problems = []
    res.aliases = []
    res.renames = []
    res.pmodel, res.qmodel = pm_, qm_
    res.unsupported = pm_.unsupported
    res.ptree_n, res.qtree_n = pn, qn
    res.future_annotations = any(isinstance(st, ast.ImportFrom) and st.module == '__future__' and any(a.name == 'annotations' for a in st.names) for st in pn.body)
    if res.diffs:
        return res      # structure differs: the pairing is not meaningful beyond this point
    # ---- aliases introduced in Q
    const_alias = {}    # (scope index, name) -> value node
    name_alias = {}     # (scope index, name) -> rhs Name node
    alias_stmt_targets = set()
    qscope_of_node = {S.nkey(s.node): s for s in qm_.scopes}
    for scope_node, stmts, path in rep.alias_blocks:
        sc = qscope_of_node.get(S.nkey(scope_node))
        if sc is None or sc.kind not in ('module', 'function'):
            res.problems.append({'kind': 'alias-in-wrong-scope', 'detail': 'alias block in %s' % path})
            continue
        for st in stmts:
            t = st.targets[0]
            to = qm_.occ.get((S.nkey(t), 'id'))
            b = to.binding if to else None
            if not b or b[0] != 'b':
                res.problems.append({'kind': 'alias-unresolved', 'detail': t.id})
                continue
            key = (b[1], b[2])
            alias_stmt_targets.add(S.nkey(t))
            if isinstance(st.value, ast.Constant):
                const_alias[key] = st.value
                res.aliases.append({'name': t.id, 'scope': sc.kind, 'scope_index': b[1], 'value': ckey(st.value.value), 'kind': 'const'})
            else:
                name_alias[key] = st.value
                res.aliases.append({'name': t.id, 'scope': sc.kind, 'scope_index': b[1], 'rhs': st.value.id, 'kind': 'name'})
            if b[1] != sc.index:
                res.problems.append({'kind': 'alias-binds-elsewhere', 'detail': '%s assigned in %s binds in scope %d (global/nonlocal declaration?)' % (t.id, path, b[1])})
    # occurrences of Q grouped by binding
    q_by_binding = {}
    for o in qm_.occ.values():
        if o.binding and o.binding[0] == 'b':
            q_by_binding.setdefault((o.binding[1], o.binding[2]), []).append(o)
    # alias validity: single store, never deleted / rebound
    for key, val in const_alias.items():
        occs = q_by_binding.get(key, [])
        binders = [o for o in occs if o.role in S.BIND_ROLES]
        if len(binders) != 1:
            res.problems.append({'kind': 'alias-rebound', 'detail': 'constant alias %s is bound %d times (%s)' % (key[1], len(binders), sorted(set(o.role for o in binders)))})
    name_alias_target = {}
    for key, rhs in name_alias.items():
        occs = q_by_binding.get(key, [])
        ro = qm_.occ.get((S.nkey(rhs), 'id'))
        rb = ro.binding if ro else None
        sc = qm_.scopes[key[0]]
        if rb and rb[0] == 'free':
            # builtin alias
            if rb[1] not in BUILTIN_NAMES:
                res.problems.append({'kind': 'alias-of-unbound-global', 'detail': '%s = %s: %s is neither bound nor a builtin' % (key[1], rb[1], rb[1])})
            if rb[1] in ('super', '__class__'):
                res.problems.append({'kind': 'alias-of-compiler-special-name', 'detail': '%s = %s' % (key[1], rb[1])})
            if sc.kind != 'module':
                pass
            binders = [o for o in occs if o.role in S.BIND_ROLES]
            if len(binders) != 1:
                res.problems.append({'kind': 'alias-rebound', 'detail': 'builtin alias %s is bound %d times' % (key[1], len(binders))})
            name_alias_target[key] = ('free', rb[1])
        elif rb and rb[0] == 'b' and rb[1] == key[0] and sc.params.get(rb[2]) is not None:
            # argument re-binding: all uses of the parameter must have moved to the alias
            pocc = q_by_binding.get((rb[1], rb[2]), [])
            extra = [o for o in pocc if o.role != 'param' and o is not ro]
            if extra:
                res.problems.append({'kind': 'argument-rebinding-mixed', 'detail': 'parameter %s re-bound to %s but still used directly (%d times)' % (rb[2], key[1], len(extra))})
            name_alias_target[key] = ('b', rb[1], rb[2])
        else:
            res.problems.append({'kind': 'alias-of-something-else', 'detail': '%s = %s (%r)' % (key[1], rhs.id, rb)})
    # ---- hoisted literal uses
    for value, qkey, path in rep.const_alias_uses:
        qo = qm_.occ.get(qkey)
        if qo is None and qm_.scopes and getattr(res, 'future_annotations', False):
            res.rules['literal-in-unevaluated-annotation'] = res.rules.get('literal-in-unevaluated-annotation', 0) + 1
            continue        # inside an annotation under `from __future__ import annotations`: never evaluated, not a reference
        if qo is None or not qo.binding or qo.binding[0] != 'b' or (qo.binding[1], qo.binding[2]) not in const_alias:
            res.problems.append({'kind': 'literal-replaced-by-non-alias', 'detail': '%s: literal %r replaced by name %s which is not an introduced constant alias visible there (resolves to %r)' % (
                path, value, getattr(qo, 'raw', '?'), getattr(qo, 'binding', None))})
            continue
        av = const_alias[(qo.binding[1], qo.binding[2])].value
        if ckey(av) != ckey(value):
            res.problems.append({'kind': 'alias-value-differs', 'detail': '%s: literal %s replaced by alias %s = %s' % (path, ckey(value), qo.raw, ckey(av))})
    # ---- folded expressions: value of Q's subtree (aliases substituted) must equal P's value
    for vp, qnode, path in rep.fold_uses:
        env = {}
        okq = True
        for n in ast.walk(qnode):
            if isinstance(n, ast.Name):
                qo = qm_.occ.get((S.nkey(n), 'id'))
                k = (qo.binding[1], qo.binding[2]) if (qo is not None and qo.binding and qo.binding[0] == 'b') else None
                if k in const_alias:
                    env[n.id] = const_alias[k].value
                else:
                    okq = False
        vq = eval_literal(qnode, env) if okq else None
        if vq is None or ckey(vq[0]) != ckey(vp):
            res.diffs.append({'path': path, 'kind': 'folded-value-differs', 'p': repr(vp)[:80], 'q': short(qnode)})
    # ---- scope correspondence from the lock-step walk
    pscope_idx = {S.nkey(sc.node): sc.index for sc in pm_.scopes}
    qscope_idx = {S.nkey(sc.node): sc.index for sc in qm_.scopes}
    scope_map = {0: 0}
    for pk_, qk_ in rep.scope_pairs:
        if pk_ in pscope_idx and qk_ in qscope_idx:
            scope_map[pscope_idx[pk_]] = qscope_idx[qk_]
    # bindings whose every binding occurrence sits in a statement the enabled options removed (they no longer exist in the output)
    paired_p = set(pk for pk, _, _ in rep.pairs)
    paired_q = set(qk for _, qk, _ in rep.pairs)
    p_binders = {}
    for o in pm_.occ.values():
        if o.binding and o.binding[0] == 'b' and o.role in S.BIND_ROLES:
            p_binders.setdefault((o.binding[1], o.binding[2]), []).append(o)
    q_binders = {}
    for o in qm_.occ.values():
        if o.binding and o.binding[0] == 'b' and o.role in S.BIND_ROLES:
            q_binders.setdefault((o.binding[1], o.binding[2]), []).append(o)

    def p_binding_dropped(b):
        bs = p_binders.get((b[1], b[2]), [])
        return bool(bs) and all(o.key not in paired_p for o in bs)
    res.paired_p, res.paired_q, res.p_binders, res.q_binders, res.scope_map = paired_p, paired_q, p_binders, q_binders, scope_map
    # ---- binding relation over identifier pairs
    fwd = {}
    bwd = {}
    effective = {}      # P occurrence key -> the binding it effectively has (after bindings removed with their statements are discounted)
    res.renames_by = {}
    for pkey, qkey, kind in rep.pairs:
        po = pm_.occ.get(pkey)
        qo = qm_.occ.get(qkey)
        if po is None and qo is None:
            continue        # e.g. annotations under `from __future__ import annotations`: not references
        if po is None or qo is None:
            res.problems.append({'kind': 'occurrence-model-mismatch', 'detail': '%r vs %r' % (pkey[1:], qkey[1:])})
            continue
        pb, qb = po.binding, qo.binding
        if qb[0] == 'b' and (qb[1], qb[2]) in const_alias and not (S.nkey(qo.node) in alias_stmt_targets):
            res.problems.append({'kind': 'name-replaced-by-constant-alias', 'detail': '%s -> %s' % (po.raw, qo.raw)})
            continue
        if qb[0] == 'b' and (qb[1], qb[2]) in name_alias_target:
            qb = name_alias_target[(qb[1], qb[2])]
        if pb[0] == 'unresolved-nonlocal' or qb[0] == 'unresolved-nonlocal':
            if pb[0] != qb[0]:
                res.problems.append({'kind': 'nonlocal-resolution-differs', 'detail': '%s: %r vs %r' % (po.raw, pb, qb)})
            continue
        if pb[0] == 'free':
            if qb != pb and not (qb[0] == 'free' and po.name != po.raw and qo.raw == po.raw):
                res.problems.append({'kind': 'free-name-captured-or-changed',
                                     'detail': '%s refers to no binding in the input (builtin / outside name) but %s in the output resolves to %r' % (po.raw, qo.raw, qb)})
            continue
        q_kept_too = qb[0] == 'b' and bool(q_binders.get((qb[1], qb[2]))) and all(o.key not in paired_q for o in q_binders[(qb[1], qb[2])])
        if pb[0] == 'b' and p_binding_dropped(pb) and not q_kept_too:
            # every binding occurrence of this input binding sits in a statement the enabled options remove: the occurrence then
            # resolves as in the input without those statements
            pon = pm_norm.occ.get(pkey)
            nb = pon.binding if pon is not None else None
            if nb is not None and nb[0] == 'b':
                raw_idx = pscope_idx.get(S.nkey(pm_norm.scopes[nb[1]].node))
                nb = ('b', raw_idx, nb[2]) if raw_idx is not None else None
            if nb is not None:
                pb = nb
            effective[pkey] = pb
            if pb[0] == 'free':
                if qb != pb and not (qb[0] == 'free' and po.name != po.raw and qo.raw == po.raw):
                    res.problems.append({'kind': 'free-name-captured-or-changed',
                                         'detail': '%s refers to no binding in the input once the removed statements are gone, but %s in the output resolves to %r' % (po.raw, qo.raw, qb)})
                continue
        if qb[0] == 'free':
            res.problems.append({'kind': 'bound-name-became-free', 'detail': '%s (binding %r) became %s which resolves to no binding' % (po.raw, pb, qo.raw)})
            continue
        if scope_map.get(pb[1], -1) != qb[1]:
            res.problems.append({'kind': 'binding-scope-differs', 'detail': '%s binds in scope %d (%s), %s in scope %d (%s)' % (
                po.raw, pb[1], pm_.scopes[pb[1]].name, qo.raw, qb[1], qm_.scopes[qb[1]].name)})
            continue
        pk, qk = (pb[1], pb[2]), (qb[1], qb[2])
        if fwd.setdefault(pk, qk) != qk:
            res.problems.append({'kind': 'one-binding-split', 'detail': 'occurrences of %s (scope %d) map to both %s and %s' % (pk[1], pk[0], fwd[pk][1], qk[1])})
        if bwd.setdefault(qk, pk) != pk:
            res.problems.append({'kind': 'two-bindings-merged', 'detail': 'distinct bindings %s and %s of scope %d both became %s' % (bwd[qk][1], pk[1], pk[0], qk[1])})
    res.fwd = fwd
    res.effective = effective
    for pk, qk in fwd.items():
        if pk[1] != qk[1]:
            sc = pm_.scopes[pk[0]]
            res.renames.append({'from': pk[1], 'to': qk[1], 'scope_kind': sc.kind, 'scope_index': pk[0]})
    # ---- exception brackets: side condition on P
    for pkey, name, path in rep.bracket_uses:
        po = pm_.occ.get(pkey)
        ok = bool(opts.get('remove_builtin_exception_brackets')) and name in BUILTIN_EXCEPTIONS and po is not None and po.binding[0] == 'free' \
            and not pm_.star_import
        # class-body fallback: a class scope that binds the name makes the raise inside that class body ambiguous
        if ok and po.scope.kind == 'class' and name in po.scope.bound:
            ok = False
        if ok:
            res.rules['exception-brackets-removed'] = res.rules.get('exception-brackets-removed', 0) + 1
        else:
            res.diffs.append({'path': path, 'kind': 'exception-brackets-removed-where-not-allowed',
                              'p': 'raise %s()' % name, 'q': 'option=%s builtin-exception=%s resolves=%r star-import=%s' % (
                                  bool(opts.get('remove_builtin_exception_brackets')), name in BUILTIN_EXCEPTIONS, getattr(po, 'binding', None), pm_.star_import)})
    # ---- class-body dynamic fallback: a name both bound and loaded in a class body may read the module global at run time
    pair_of = dict((pk, qk) for pk, qk, _kind in rep.pairs)
    for sc in pm_.scopes:
        if sc.kind != 'class':
            continue
        for o in sc.occs:
            if (o.role == 'load' or (o.role == 'store' and o.aug)) and o.name in sc.bound and o.scope is sc:
                n = o.name
                p_has = n in pm_.module.bound
                # the recorded finding: an enclosing *function* also binds the name, and the renamer links the class-body read to that local
                enclosing_function_binds = False
                up = sc.parent
                while up is not None:
                    if up.kind in ('function', 'lambda') and n in up.bound:
                        enclosing_function_binds = True
                    up = up.parent
                if p_has:
                    if fwd.get((0, n), (0, n))[1] != n:
                        # consistent all the same when the class-body occurrence itself was renamed along with the global and the output's class no longer
                        # binds the name (its only binders went with a removed statement)
                        qkey = pair_of.get(o.key)
                        qo = qm_.occ.get(qkey) if qkey is not None else None
                        if qo is not None and qo.raw == fwd[(0, n)][1] and qo.scope.kind == 'class' and qo.raw not in qo.scope.bound:
                            continue
                        res.problems.append({'kind': 'class-body-global-fallback-renamed', 'enclosing_function_binds': enclosing_function_binds, 'detail': 'class %s reads %s which may fall back to the module global; that global was renamed to %s' % (sc.name, n, fwd[(0, n)][1])})
                else:
                    if n in qm_.module.bound:
                        res.problems.append({'kind': 'class-body-global-fallback-captured', 'detail': 'class %s reads %s (builtin / outside); the output binds %s at module level' % (sc.name, n, n)})
    return res


# ---- interface rules (C04) over a Result ---------------------------------------------------------------------------
def dunder(n):
    return n.startswith('__') and n.endswith('__') and len(n) > 4


def interface_violations(res, opts):
    """names through which other code can reach into the module keep their spelling"""
    out = list({'kind': 'interface:' + d['kind'], 'detail': '%s -> %s at %s' % (d['p'], d['q'], d['path'])} for d in res.interface)
    pm_, qm_ = res.pmodel, res.qmodel
    rep = res.report
    for pkey, qkey, kind in rep.pairs:
        po, qo = pm_.occ.get(pkey), qm_.occ.get(qkey)
        if po is None or qo is None or po.raw == qo.raw:
            continue
        pb = getattr(res, 'effective', {}).get(pkey, po.binding)
        if pb is None:
            continue
        if dunder(po.raw):
            out.append({'kind': 'interface:dunder-name', 'detail': '%s -> %s' % (po.raw, qo.raw)})
            continue
        if pb[0] == 'free':
            # allowed only through a builtin alias; compare() already required the alias to name the same builtin
            if po.raw not in BUILTIN_NAMES:
                out.append({'kind': 'interface:never-bound-name', 'detail': '%s -> %s' % (po.raw, qo.raw)})
            elif not opts.get('rename_globals') and not qo.raw.startswith('_'):
                out.append({'kind': 'interface:added-global-without-underscore', 'detail': 'builtin %s aliased as %s with rename_globals off' % (po.raw, qo.raw)})
            continue
        if pb[0] != 'b':
            continue
        sc = pm_.scopes[pb[1]]
        if sc.kind == 'class':
            out.append({'kind': 'interface:class-attribute', 'detail': 'name %s bound in class %s became %s' % (po.raw, sc.name, qo.raw)})
        elif sc.kind == 'module' and not opts.get('rename_globals'):
            out.append({'kind': 'interface:module-level-name', 'detail': 'module-level name %s became %s although rename_globals is off' % (po.raw, qo.raw)})
        elif po.role == 'param':
            kindp = sc.params.get(po.name)
            fn = sc.node
            exempt = False
            if kindp in ('posonly', 'vararg', 'kwarg'):
                exempt = True
            elif sc.kind == 'function' and sc.is_method_like and sc.first_param == po.name:
                decs = fn.decorator_list
                if len(decs) == 0 or (len(decs) == 1 and isinstance(decs[0], ast.Name) and decs[0].id == 'classmethod'):
                    exempt = True       # "self", "cls": documented as renamed
            if not exempt:
                out.append({'kind': 'interface:keyword-parameter', 'detail': 'parameter %s of %s (%s) became %s in the signature' % (po.raw, sc.name, kindp, qo.raw)})
    # added module-level names must start with "_" unless rename_globals
    if not opts.get('rename_globals'):
        for a in res.aliases:
            if a['scope'] == 'module' and not a['name'].startswith('_'):
                out.append({'kind': 'interface:added-global-without-underscore', 'detail': 'introduced module-level name %s' % a['name']})
        extra = set(qm_.module.bound) - set(pm_.module.bound) - set(a['name'] for a in res.aliases if a['scope'] == 'module')
        # names bound at module level through renamed globals are reported above; anything else that is new:
        for n in sorted(extra):
            if not any(r['to'] == n for r in res.renames):
                out.append({'kind': 'interface:new-module-level-name', 'detail': n})
    return out
