"""O2 - scope resolver written from the language reference, independent of python_minifier; validated against `symtable`.

resolve(tree) -> Model with
   .scopes            list of Scope in creation (pre-)order
   .occ               dict key -> Occurrence, key = (nkey(node), field[, index])
   .unsupported       reasons the model does not cover (PEP 695 type parameter scopes)
Every identifier occurrence gets .binding = ('b', scope_index, mangled_name) or ('free', mangled_name).
"""
import ast
import symtable
import sys

COMP = (ast.ListComp, ast.SetComp, ast.DictComp, ast.GeneratorExp)
FUNC = (ast.FunctionDef, ast.AsyncFunctionDef)


class Scope(object):
    def __init__(self, kind, node, parent, name, index, class_name):
        self.kind = kind              # module function lambda class comprehension
        self.node = node
        self.parent = parent
        self.name = name
        self.index = index
        self.class_name = class_name  # innermost enclosing class name (for mangling), including self if class
        self.bound = set()            # mangled names bound here
        self.bound_raw = {}           # mangled -> set of raw spellings
        self.globals_decl = set()
        self.nonlocal_decl = set()
        self.children = []
        self.occs = []                # occurrences that textually occur in this scope
        self.params = {}              # mangled name -> kind (posonly std kwonly vararg kwarg)
        self.first_param = None
        self.is_method_like = False
        self.decorators = []

    def function_like(self):
        return self.kind in ('function', 'lambda', 'comprehension')

    def __repr__(self):
        return '<Scope %d %s %s>' % (self.index, self.kind, self.name)


class Occurrence(object):
    __slots__ = ('node', 'key', 'raw', 'name', 'role', 'scope', 'binding', 'target_scope', 'aug')

    def __init__(self, node, key, raw, name, role, scope):
        self.node = node
        self.key = key
        self.raw = raw
        self.name = name        # mangled
        self.role = role        # load store del param def classdef import global nonlocal except match walrus typeparam
        self.scope = scope      # scope in which the occurrence is evaluated/bound (after walrus / declaration routing)
        self.binding = None
        self.target_scope = None
        self.aug = False        # target of an augmented assignment: read and written


def nkey(node):
    """position based identity of a node: the same for every parse of the same text (the matcher pairs nodes of a normalised
    parse, the scope model is built from a pristine parse)"""
    if isinstance(node, ast.Module):
        return ('module',)
    return (getattr(node, 'lineno', None), getattr(node, 'col_offset', None), getattr(node, 'end_lineno', None), getattr(node, 'end_col_offset', None), type(node).__name__)


def mangle(name, class_name):
    if class_name is None or not name.startswith('__') or name.endswith('__') or '.' in name:
        return name
    c = class_name.lstrip('_')
    if not c:
        return name
    return '_' + c + name


class Model(object):
    def __init__(self):
        self.scopes = []
        self.occ = {}
        self.unsupported = []
        self.module = None
        self.star_import = False
        self.annassign_novalue = []


class Builder(ast.NodeVisitor):
    def __init__(self):
        self.m = Model()
        self.cur = None

    # ---- scope management
    def new_scope(self, kind, node, name):
        cn = self.cur.class_name if self.cur is not None else None
        if kind == 'class':
            cn = name
        s = Scope(kind, node, self.cur, name, len(self.m.scopes), cn)
        self.m.scopes.append(s)
        if self.cur is not None:
            self.cur.children.append(s)
        return s

    def occ(self, node, key, raw, role, scope=None):
        scope = scope or self.cur
        o = Occurrence(node, key, raw, mangle(raw, scope.class_name if role != 'walrus' else self.cur.class_name), role, scope)
        self.m.occ[key] = o
        scope.occs.append(o)
        return o

    # ---- entry
    def build(self, tree):
        self.future_annotations = any(isinstance(st, ast.ImportFrom) and st.module == '__future__' and any(a.name == 'annotations' for a in st.names)
                                      for st in tree.body)
        s = self.new_scope('module', tree, '<module>')
        self.m.module = s
        self.cur = s
        for st in tree.body:
            self.visit(st)
        return self.m

    # ---- names
    def visit_Name(self, node):
        if isinstance(node.ctx, ast.Load):
            role = 'load'
        elif isinstance(node.ctx, ast.Store):
            role = 'store'
        else:
            role = 'del'
        self.occ(node, (nkey(node), 'id'), node.id, role)

    def visit_NamedExpr(self, node):
        # target binds in the nearest enclosing non-comprehension scope
        s = self.cur
        while s.kind == 'comprehension':
            s = s.parent
        self.occ(node.target, (nkey(node.target), 'id'), node.target.id, 'walrus', scope=s)
        self.visit(node.value)

    def visit_Global(self, node):
        for i, n in enumerate(node.names):
            self.occ(node, (nkey(node), 'names', i), n, 'global')

    def visit_Nonlocal(self, node):
        for i, n in enumerate(node.names):
            self.occ(node, (nkey(node), 'names', i), n, 'nonlocal')

    # ---- definitions
    def _arguments_outer(self, args):
        for d in args.defaults:
            self.visit(d)
        for d in args.kw_defaults:
            if d is not None:
                self.visit(d)

    def _annotations_outer(self, args, returns=None):
        if self.future_annotations:
            return          # never evaluated: not references
        for a in getattr(args, 'posonlyargs', []) + args.args + args.kwonlyargs + [args.vararg, args.kwarg]:
            if a is not None and a.annotation is not None:
                self.visit(a.annotation)
        if returns is not None:
            self.visit(returns)

    def _params(self, scope, args, is_lambda=False):
        first = True
        for kind, lst in (('posonly', getattr(args, 'posonlyargs', [])), ('std', args.args)):
            for a in lst:
                o = self.occ(a, (nkey(a), 'arg'), a.arg, 'param', scope=scope)
                scope.params[o.name] = 'posonly' if getattr(a, '_vf_posonly', False) else kind
                if first:
                    scope.first_param = o.name
                    first = False
        if args.vararg is not None:
            o = self.occ(args.vararg, (nkey(args.vararg), 'arg'), args.vararg.arg, 'param', scope=scope)
            scope.params[o.name] = 'vararg'
        for a in args.kwonlyargs:
            o = self.occ(a, (nkey(a), 'arg'), a.arg, 'param', scope=scope)
            scope.params[o.name] = 'kwonly'
        if args.kwarg is not None:
            o = self.occ(args.kwarg, (nkey(args.kwarg), 'arg'), args.kwarg.arg, 'param', scope=scope)
            scope.params[o.name] = 'kwarg'

    def visit_FunctionDef(self, node):
        if getattr(node, 'type_params', None):
            self.m.unsupported.append('type-params')
        for d in node.decorator_list:
            self.visit(d)
        self._arguments_outer(node.args)
        self._annotations_outer(node.args, node.returns)
        self.occ(node, (nkey(node), 'name'), node.name, 'def')
        s = self.new_scope('function', node, node.name)
        s.decorators = node.decorator_list
        s.is_method_like = self.cur.kind == 'class'
        self._params(s, node.args)
        old = self.cur
        self.cur = s
        for st in node.body:
            self.visit(st)
        self.cur = old

    visit_AsyncFunctionDef = visit_FunctionDef

    def visit_Lambda(self, node):
        self._arguments_outer(node.args)
        s = self.new_scope('lambda', node, 'lambda')
        self._params(s, node.args, True)
        old = self.cur
        self.cur = s
        self.visit(node.body)
        self.cur = old

    def visit_ClassDef(self, node):
        if getattr(node, 'type_params', None):
            self.m.unsupported.append('type-params')
        for d in node.decorator_list:
            self.visit(d)
        for b in node.bases:
            self.visit(b)
        for k in node.keywords:
            self.visit(k.value)
        self.occ(node, (nkey(node), 'name'), node.name, 'classdef')
        s = self.new_scope('class', node, node.name)
        s.decorators = node.decorator_list
        old = self.cur
        self.cur = s
        for st in node.body:
            self.visit(st)
        self.cur = old

    def visit_TypeAlias(self, node):
        self.m.unsupported.append('type-alias')
        self.generic_visit(node)

    def _comprehension(self, node, elts):
        gens = node.generators
        self.visit(gens[0].iter)
        s = self.new_scope('comprehension', node, {ast.ListComp: 'listcomp', ast.SetComp: 'setcomp', ast.DictComp: 'dictcomp', ast.GeneratorExp: 'genexpr'}[type(node)])
        old = self.cur
        self.cur = s
        for i, g in enumerate(gens):
            if i > 0:
                self.visit(g.iter)
            self.visit(g.target)
            for c in g.ifs:
                self.visit(c)
        for e in elts:
            self.visit(e)
        self.cur = old

    def visit_ListComp(self, node):
        self._comprehension(node, [node.elt])

    visit_SetComp = visit_ListComp
    visit_GeneratorExp = visit_ListComp

    def visit_DictComp(self, node):
        self._comprehension(node, [node.key, node.value])

    # ---- binding statements
    def visit_Import(self, node):
        for a in node.names:
            raw = a.asname if a.asname is not None else a.name.split('.')[0]
            self.occ(a, (nkey(a), 'bound'), raw, 'import')

    def visit_ImportFrom(self, node):
        for a in node.names:
            if a.name == '*':
                self.m.star_import = True
                continue
            raw = a.asname if a.asname is not None else a.name
            self.occ(a, (nkey(a), 'bound'), raw, 'import')

    def visit_ExceptHandler(self, node):
        if node.type is not None:
            self.visit(node.type)
        if node.name is not None:
            self.occ(node, (nkey(node), 'name'), node.name, 'except')
        for st in node.body:
            self.visit(st)

    def visit_MatchAs(self, node):
        if node.pattern is not None:
            self.visit(node.pattern)
        if node.name is not None:
            self.occ(node, (nkey(node), 'name'), node.name, 'match')

    def visit_MatchStar(self, node):
        if node.name is not None:
            self.occ(node, (nkey(node), 'name'), node.name, 'match')

    def visit_MatchMapping(self, node):
        for k in node.keys:
            self.visit(k)
        for p in node.patterns:
            self.visit(p)
        if node.rest is not None:
            self.occ(node, (nkey(node), 'rest'), node.rest, 'match')

    def visit_AugAssign(self, node):
        self.visit(node.target)
        if isinstance(node.target, ast.Name):
            o = self.m.occ.get((nkey(node.target), 'id'))
            if o is not None:
                o.aug = True
        self.visit(node.value)

    def visit_AnnAssign(self, node):
        # compiler order: target, annotation, value  (binding analysis does not depend on it)
        self.visit(node.target)
        if not self.future_annotations:
            self.visit(node.annotation)
        if node.value is not None:
            self.visit(node.value)
        elif isinstance(node.target, ast.Name):
            self.m.annassign_novalue.append(node)


BIND_ROLES = ('store', 'del', 'param', 'def', 'classdef', 'import', 'except', 'match', 'walrus', 'typeparam')


def resolve(tree):
    m = Builder().build(tree)
    # pass 1: declarations
    for s in m.scopes:
        for o in s.occs:
            if o.role == 'global':
                s.globals_decl.add(o.name)
            elif o.role == 'nonlocal':
                s.nonlocal_decl.add(o.name)
    # pass 2: bindings
    for s in m.scopes:
        for o in s.occs:
            if o.role in BIND_ROLES:
                if o.name in s.globals_decl:
                    m.module.bound.add(o.name)
                elif o.name in s.nonlocal_decl:
                    pass
                else:
                    s.bound.add(o.name)
    # pass 3: resolution
    for s in m.scopes:
        for o in s.occs:
            o.binding, o.target_scope = _resolve(m, s, o.name)
    return m


def _resolve(m, s, name):
    if name in s.globals_decl and s is not m.module:
        return (('b', 0, name), m.module) if name in m.module.bound else (('free', name), None)
    if name in s.nonlocal_decl and s is not m.module:
        p = s.parent
        while p is not None:
            if p.function_like() and name in p.bound:
                return ('b', p.index, name), p
            if p.function_like() and name in p.nonlocal_decl:
                pass
            p = p.parent
        return ('unresolved-nonlocal', name), None
    if name in s.bound:
        return ('b', s.index, name), s
    p = s.parent
    while p is not None:
        if p.kind == 'module':
            break
        if p.function_like():
            if name in p.globals_decl:
                return (('b', 0, name), m.module) if name in m.module.bound else (('free', name), None)
            if name in p.bound:
                return ('b', p.index, name), p
            if name in p.nonlocal_decl:
                return _resolve(m, p, name)
        p = p.parent
    if name in m.module.bound:
        return ('b', 0, name), m.module
    return ('free', name), None


# ---- validation against the interpreter's own symbol tables --------------------------------------------------------
def _table_children(scope):
    """my child scopes that have their own symtable table (3.12 inlines list/set/dict comprehensions in functions... in fact
    everywhere except class bodies? -> decided dynamically by the caller through name matching)"""
    return scope.children


def validate(model, source, filename='<vf>'):
    """Compare my per-scope classification with symtable. Returns list of disagreement strings (empty = agrees).
    Comprehension scopes that the interpreter inlined (no table of their own) are skipped."""
    try:
        top = symtable.symtable(source, filename, 'exec')
    except Exception as e:
        return ['symtable failed: %s' % e]
    problems = []
    _validate_scope(model, model.module, top, problems)
    return problems


def _pair_children(scope, table):
    """pair my child scopes with the table's children; returns list of (myscope, table) and flattens inlined comprehensions"""
    tchildren = list(table.get_children())
    pairs = []
    used = [False] * len(tchildren)

    def take(name, lineno, allow_fallback=True):
        for i, t in enumerate(tchildren):
            if not used[i] and t.get_name() == name and t.get_lineno() == lineno:
                used[i] = True
                return t
        if not allow_fallback:
            return None
        for i, t in enumerate(tchildren):
            if not used[i] and t.get_name() == name:
                used[i] = True
                return t
        return None

    def walk(children):
        for c in children:
            lineno = getattr(c.node, 'lineno', 0)
            t = take(c.name, lineno, c.kind != 'comprehension')
            if t is None and c.kind == 'comprehension':
                # inlined: its own children belong to this table
                pairs.append((c, None))
                walk(c.children)
            else:
                pairs.append((c, t))
    walk(scope.children)
    return pairs, [t for i, t in enumerate(tchildren) if not used[i]]


def _validate_scope(model, scope, table, problems):
    mine = {}
    for o in scope.occs:
        b = o.binding
        if o.role in ('global', 'nonlocal'):
            continue
        if b[0] == 'b' and b[1] == scope.index:
            cat = 'local'
        elif b[0] == 'b' and b[1] == 0:
            cat = 'global'
        elif b[0] == 'b':
            cat = 'free'
        elif b[0] == 'free':
            cat = 'global'
        else:
            cat = 'unresolved'
        prev = mine.get(o.name)
        if prev is not None and prev != cat:
            problems.append('%r: inconsistent categories for %s in my model' % (scope, o.name))
        mine[o.name] = cat
    for name, cat in mine.items():
        if name in ('__class__',):
            continue
        try:
            sym = table.lookup(name)
        except KeyError:
            problems.append('%r: %s not in symtable' % (scope, name))
            continue
        if scope.kind == 'module':
            want = 'local' if sym.is_local() and not sym.is_global() else 'global'
            # at module level local == global; compare bound-ness
            is_bound = sym.is_assigned() or sym.is_imported() or sym.is_parameter() or (hasattr(sym, 'is_namespace') and sym.is_namespace())
            my_bound = cat == 'local'
            # names bound through `global` declarations in nested functions are module-bound in my model, not in symtable's module table
            if my_bound and not is_bound:
                if not _bound_via_global(model, name) and not _bound_via_walrus(model, name):
                    problems.append('%r: %s bound in my model, not in symtable' % (scope, name))
            if is_bound and not my_bound:
                problems.append('%r: %s bound in symtable, not in my model' % (scope, name))
            continue
        # note: symtable.Symbol.is_global()/is_local() treat any table *named* "top" as the module table; use the
        # unambiguous predicates first
        if sym.is_free():
            got = 'free'
        elif sym.is_declared_global():
            got = 'global'
        elif sym.is_parameter() or sym.is_assigned() or sym.is_imported() or (sym.is_local() and table.get_name() != 'top'):
            got = 'local'
        elif sym.is_local() and table.get_name() == 'top' and sym.is_namespace():
            got = 'local'
        else:
            got = 'global'   # implicit global / builtin reference
        if cat != got:
            # class bodies: a name bound in the class but read before... symtable says local; mine says local. ok
            problems.append('%r: %s is %s in my model, %s in symtable' % (scope, name, cat, got))
    pairs, unused = _pair_children(scope, table)
    for c, t in pairs:
        if t is None:
            if c.kind != 'comprehension':
                problems.append('%r: child %r has no symtable table' % (scope, c))
            else:
                _validate_inlined(model, c, table, problems)
            continue
        _validate_scope(model, c, t, problems)
    for t in unused:
        if t.get_type() in ('function', 'class') or True:
            # type-parameter / annotation scopes (3.12+) are not modelled
            if t.get_type() not in ('function', 'class', 'module'):
                continue
            problems.append('%r: symtable child %s@%s not in my model' % (scope, t.get_name(), t.get_lineno()))


def _validate_inlined(model, comp, table, problems):
    """an inlined comprehension: only recurse into its children using the enclosing table"""
    pairs, unused = _pair_children_inlined(comp, table)


def _pair_children_inlined(comp, table):
    return [], []


def _bound_via_walrus(model, name):
    return any(o.name == name and o.role == 'walrus' for o in model.module.occs)


def _bound_via_global(model, name):
    for s in model.scopes:
        if s is model.module:
            continue
        if name in s.globals_decl:
            for o in s.occs:
                if o.name == name and o.role in BIND_ROLES:
                    return True
    return False
