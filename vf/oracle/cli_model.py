"""O5 - the command line model, transcribed by hand from docs/source/transforms/*.rst and `pyminify --help`.

flag -> (minify keyword or annotation sub-option, value when the flag is given). Default otherwise = minify()'s default.
Nothing here is derived from __main__.py.
"""
from vf import common

FLAGS = [
    ('--no-combine-imports', 'combine_imports', False),
    ('--no-remove-pass', 'remove_pass', False),
    ('--remove-literal-statements', 'remove_literal_statements', True),
    ('--no-hoist-literals', 'hoist_literals', False),
    ('--no-rename-locals', 'rename_locals', False),
    ('--rename-globals', 'rename_globals', True),
    ('--no-remove-object-base', 'remove_object_base', False),
    ('--no-convert-posargs-to-args', 'convert_posargs_to_args', False),
    ('--no-preserve-shebang', 'preserve_shebang', False),
    ('--remove-asserts', 'remove_asserts', True),
    ('--remove-debug', 'remove_debug', True),
    ('--no-remove-explicit-return-none', 'remove_explicit_return_none', False),
    ('--no-remove-builtin-exception-brackets', 'remove_builtin_exception_brackets', False),
    ('--no-constant-folding', 'constant_folding', False),
    ('--no-remove-annotations', '@all_annotations', False),
    ('--no-remove-variable-annotations', 'remove_variable_annotations', False),
    ('--no-remove-return-annotations', 'remove_return_annotations', False),
    ('--no-remove-argument-annotations', 'remove_argument_annotations', False),
    ('--remove-class-attribute-annotations', 'remove_class_attribute_annotations', True),
]
NFLAGS = len(FLAGS)   # 19


def flags_of(mask):
    return [FLAGS[i][0] for i in range(NFLAGS) if mask >> i & 1]


def invalid(flags):
    """documented invalid combination among the option flags"""
    return '--remove-class-attribute-annotations' in flags and '--no-remove-annotations' in flags


def expected_options(flags):
    """flat switch dict (vf.common.ALL_SWITCHES) that the documentation says these flags mean"""
    o = common.defaults()
    for name, key, val in FLAGS:
        if name in flags and not key.startswith('@'):
            o[key] = val
    if '--no-remove-annotations' in flags:
        for k in common.ANNOTATION_OPTIONS:
            o[k] = False
    return o


def split_preserve(values):
    """`--preserve-locals L` may be repeated; each L is a comma separated list; names are stripped."""
    names = []
    for v in values or []:
        for n in v.split(','):
            n = n.strip()
            if n:
                names.append(n)
    return names


PRESERVE_SPELLINGS = [
    ([], []),
    (['--preserve-locals', 'alpha,beta', '--preserve-globals', 'gamma'], None),
    (['--preserve-locals', 'alpha', '--preserve-locals', 'beta, delta ', '--preserve-globals', 'gamma,epsilon', '--preserve-globals', 'zeta'], None),
    (['--preserve-globals', 'one,,two,', '--preserve-locals', ' spaced , names '], None),
]


def preserve_of(argv):
    pl, pg = [], []
    i = 0
    while i < len(argv):
        if argv[i] == '--preserve-locals':
            pl.append(argv[i + 1])
            i += 2
        elif argv[i] == '--preserve-globals':
            pg.append(argv[i + 1])
            i += 2
        else:
            i += 1
    return split_preserve(pl), split_preserve(pg)


def api_kwargs(flags, preserve_argv, pm):
    o = expected_options(flags)
    pl, pg = preserve_of(preserve_argv)
    kw = common.opts_to_kwargs(o, pm)
    kw['preserve_locals'] = pl
    kw['preserve_globals'] = pg
    return kw


def expected_bytes(source_bytes, flags, preserve_argv, pm, force_best_effort=False):
    """what the tool must write for this source: UTF-8 of the API result, or the source itself when that is larger"""
    out = pm.minify(source_bytes, **api_kwargs(flags, preserve_argv, pm)).encode('utf-8')
    if force_best_effort:
        return out
    if len(out) > len(source_bytes):
        return source_bytes
    return out
