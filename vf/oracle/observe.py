"""O4 - execution observer: run a program text in a forked child and report what can be observed from outside.

observe(text, optimize=0) -> dict(stdout, outcome, namespace, history)
  stdout     captured text, with reprs of functions / classes / objects (documented reflective views: local names, addresses) normalised
  outcome    'ok' | 'raise:<ExceptionType>' | 'exit:<status>' | 'timeout'
  namespace  public module names -> abbreviated values
  history    sys.monitoring event history of the program's own code objects: PY_RETURN / PY_YIELD values (abbreviated) and RAISE types
"""
import hashlib
import io
import json
import os
import re
import select
import signal
import sys
import time

PRIMS = (int, float, complex, str, bytes, bool, type(None))
REPR_NORMALISERS = [
    (re.compile(r"<(function|class|bound method|built-in method|built-in function|method|coroutine object|generator object|async_generator object|module|code object|cell)\b[^<>]*(<locals>[^<>]*)*[^<>]*>"), r'<\1>'),
    (re.compile(r"<[\w.]*(<locals>\.)?[\w.<>]* object at 0x[0-9a-fA-F]+>"), '<object>'),
    (re.compile(r" at 0x[0-9a-fA-F]+"), ' at 0x'),
    (re.compile(r"<locals>\.\w+"), '<locals>.N'),
]


_SET_WITH_OBJECT = re.compile(r"\{([^{}\[\]]*<(?:function|class|object|built-in function|built-in method|bound method|method|module)[^{}\[\]]*)\}")


def _sort_set_display(m):
    """a set display that contains functions / classes / objects is ordered by id(): order its items textually (top-level commas only)"""
    body = m.group(1)
    items, depth, cur = [], 0, ''
    for ch in body:
        if ch in '(<':
            depth += 1
        elif ch in ')>':
            depth -= 1
        if ch == ',' and depth == 0:
            items.append(cur.strip())
            cur = ''
        else:
            cur += ch
    if cur.strip():
        items.append(cur.strip())
    if any(':' in it and not it.startswith(("'", '"', '<', '(')) for it in items):
        return m.group(0)
    return '{' + ', '.join(sorted(items)) + '}'


def normalise_stdout(s):
    for rx, rep in REPR_NORMALISERS:
        s = rx.sub(rep, s)
    if '{' in s and '<' in s:
        s = _SET_WITH_OBJECT.sub(_sort_set_display, s)
    return s


def exc_name(e):
    """builtin exception types by name; user-defined ones may be renamed locals (documented reflective view)"""
    t = e if isinstance(e, type) else type(e)
    return t.__name__ if t.__module__ == 'builtins' else '<user-defined>'


def abbreviate(v, depth=0):
    if isinstance(v, str) and ('<' in v or ' at 0x' in v):
        v = normalise_stdout(v)
    if isinstance(v, PRIMS):
        r = repr(v)
        return '%s:%s' % (type(v).__name__, r if len(r) < 200 else hashlib.sha1(r.encode('utf-8', 'replace')).hexdigest()[:12])
    if depth < 3 and isinstance(v, (list, tuple)):
        if len(v) <= 12:
            return type(v).__name__ + '[' + ','.join(abbreviate(x, depth + 1) for x in v) + ']'
        return '%s[len=%d]' % (type(v).__name__, len(v))
    if depth < 3 and isinstance(v, dict):
        if len(v) <= 8 and all(isinstance(k, PRIMS) for k in v):
            return 'dict{' + ','.join('%s=%s' % (abbreviate(k, depth + 1), abbreviate(x, depth + 1)) for k, x in v.items()) + '}'
        return 'dict[len=%d]' % len(v)
    if depth < 3 and isinstance(v, (set, frozenset)):
        if len(v) <= 8 and all(isinstance(k, PRIMS) for k in v):
            return type(v).__name__ + '{' + ','.join(sorted(abbreviate(x, depth + 1) for x in v)) + '}'
        return '%s[len=%d]' % (type(v).__name__, len(v))
    if isinstance(v, type):
        return 'class'
    if callable(v):
        return 'callable'
    if isinstance(v, BaseException):
        return 'exception:' + exc_name(v)
    t = type(v)
    if t.__module__ == 'builtins':
        return 'builtin-instance:' + t.__name__
    if t.__module__ in ('__main__', '__vf_prog__', None):
        return 'instance'
    return 'instance:' + t.__module__.split('.')[0]


def _child(text, optimize, wfd, want_history, filename, perturb=0):
    junk = [object() for _ in range(perturb)] + [bytearray(1 + (i % 97)) for i in range(perturb // 7)]     # shifts heap addresses
    out = io.StringIO()
    history = []
    result = {'outcome': 'ok'}
    try:
        code = compile(text, filename, 'exec', dont_inherit=True, optimize=optimize)
    except BaseException as e:
        os.write(wfd, json.dumps({'outcome': 'compile-error:' + type(e).__name__, 'stdout': '', 'namespace': {}, 'history': []}).encode())
        os._exit(0)
    ns = {'__name__': '__vf_prog__', '__builtins__': __builtins__}
    mon = getattr(sys, 'monitoring', None)
    TOOL = 4
    if want_history and mon is not None:
        E = mon.events
        try:
            mon.use_tool_id(TOOL, 'vf-observe')
        except ValueError:
            pass

        def on_return(code_, off, val):
            if code_.co_filename != filename:
                return mon.DISABLE
            if len(history) < 4000:
                history.append('R ' + abbreviate(val))

        def on_yield(code_, off, val):
            if code_.co_filename != filename:
                return mon.DISABLE
            if len(history) < 4000:
                history.append('Y ' + abbreviate(val))

        def on_raise(code_, off, exc):
            if code_.co_filename != filename:
                return
            if len(history) < 4000:
                history.append('X ' + exc_name(exc))
        mon.register_callback(TOOL, E.PY_RETURN, on_return)
        mon.register_callback(TOOL, E.PY_YIELD, on_yield)
        mon.register_callback(TOOL, E.RAISE, on_raise)
        mon.set_events(TOOL, E.PY_RETURN | E.PY_YIELD | E.RAISE)
    old_stdout = sys.stdout
    sys.stdout = out
    sys.argv = ['prog']
    try:
        try:
            exec(code, ns)
        except SystemExit as e:
            result['outcome'] = 'exit:%r' % (e.code,)
        except BaseException as e:
            result['outcome'] = 'raise:' + exc_name(e)
    finally:
        sys.stdout = old_stdout
        if want_history and mon is not None:
            try:
                mon.set_events(TOOL, 0)
            except Exception:
                pass
    nsrep = {}
    for k, v in list(ns.items()):
        if k.startswith('_') or k == '__builtins__':
            continue
        try:
            nsrep[k] = abbreviate(v)
        except Exception as e:
            nsrep[k] = 'unabbreviable:' + type(e).__name__
    result['stdout'] = out.getvalue()[:200000]
    result['namespace'] = nsrep
    result['history'] = history
    data = json.dumps(result).encode('utf-8', 'surrogatepass')
    try:
        os.write(wfd, data)
    except Exception:
        pass
    os._exit(0)


def _local_observe(text, optimize=0, timeout=8.0, want_history=True, filename='<vf-prog>', perturb=0):
    rfd, wfd = os.pipe()
    pid = os.fork()
    if pid == 0:
        try:
            os.close(rfd)
            devnull = os.open(os.devnull, os.O_RDWR)
            os.dup2(devnull, 0)
            os.dup2(devnull, 2)
            signal.alarm(0)
            signal.signal(signal.SIGALRM, signal.SIG_DFL)
            sys.setrecursionlimit(1000)
            _child(text, optimize, wfd, want_history, filename, perturb)
        finally:
            os._exit(1)
    os.close(wfd)
    chunks = []
    deadline = time.time() + timeout
    timed_out = False
    while True:
        left = deadline - time.time()
        if left <= 0:
            timed_out = True
            break
        r, _, _ = select.select([rfd], [], [], left)
        if not r:
            timed_out = True
            break
        b = os.read(rfd, 1 << 16)
        if not b:
            break
        chunks.append(b)
    os.close(rfd)
    if timed_out:
        try:
            os.kill(pid, signal.SIGKILL)
        except OSError:
            pass
    try:
        os.waitpid(pid, 0)
    except OSError:
        pass
    if timed_out:
        return {'outcome': 'timeout', 'stdout': '', 'namespace': {}, 'history': []}
    try:
        res = json.loads(b''.join(chunks).decode('utf-8', 'surrogatepass'))
    except Exception:
        return {'outcome': 'child-died', 'stdout': '', 'namespace': {}, 'history': []}
    res['stdout'] = normalise_stdout(res['stdout'])
    return res


_helper = {'proc': None}


def _start_helper():
    import subprocess
    env = dict(os.environ)
    env['PYTHONHASHSEED'] = '0'
    env['PYTHONWARNINGS'] = 'ignore'
    here = os.path.dirname(os.path.dirname(os.path.dirname(os.path.abspath(__file__))))
    env['PYTHONPATH'] = here
    env.pop('PYMINIFY_FORCE_BEST_EFFORT', None)
    _helper['proc'] = subprocess.Popen([sys.executable, '-W', 'ignore', '-m', 'vf.oracle.observe', '--serve'], stdin=subprocess.PIPE, stdout=subprocess.PIPE,
                                       stderr=subprocess.DEVNULL, env=env, cwd=here)


def observe(text, optimize=0, timeout=8.0, want_history=True, filename='<vf-prog>', perturb=0):
    """run in a small long-lived helper process that forks per program (forking the large worker process is slow here)"""
    for attempt in (0, 1):
        if _helper['proc'] is None or _helper['proc'].poll() is not None:
            _start_helper()
        p = _helper['proc']
        try:
            p.stdin.write((json.dumps({'text': text, 'optimize': optimize, 'timeout': timeout, 'want_history': want_history, 'filename': filename, 'perturb': perturb}) + '\n').encode('utf-8', 'surrogatepass'))
            p.stdin.flush()
            r, _, _ = select.select([p.stdout], [], [], timeout + 20)
            if not r:
                raise OSError('helper timeout')
            line = p.stdout.readline()
            if not line:
                raise OSError('helper died')
            return json.loads(line.decode('utf-8', 'surrogatepass'))
        except Exception:
            try:
                p.kill()
            except Exception:
                pass
            _helper['proc'] = None
    return {'outcome': 'child-died', 'stdout': '', 'namespace': {}, 'history': []}


class _Timeout(BaseException):
    pass


_mon_state = {'installed': False, 'history': None, 'filename': None}


def _install_monitoring():
    mon = getattr(sys, 'monitoring', None)
    if mon is None or _mon_state['installed']:
        return
    TOOL = 4
    E = mon.events
    try:
        mon.use_tool_id(TOOL, 'vf-observe')
    except ValueError:
        pass

    def on_return(code_, off, val):
        h = _mon_state['history']
        if h is None or code_.co_filename != _mon_state['filename']:
            return
        if len(h) < 4000:
            h.append('R ' + abbreviate(val))

    def on_yield(code_, off, val):
        h = _mon_state['history']
        if h is None or code_.co_filename != _mon_state['filename']:
            return
        if len(h) < 4000:
            h.append('Y ' + abbreviate(val))

    def on_raise(code_, off, exc):
        h = _mon_state['history']
        if h is None or code_.co_filename != _mon_state['filename']:
            return
        if isinstance(exc, _Timeout):
            return
        if len(h) < 4000:
            h.append('X ' + exc_name(exc))
    mon.register_callback(TOOL, E.PY_RETURN, on_return)
    mon.register_callback(TOOL, E.PY_YIELD, on_yield)
    mon.register_callback(TOOL, E.RAISE, on_raise)
    mon.set_events(TOOL, E.PY_RETURN | E.PY_YIELD | E.RAISE)
    _mon_state['installed'] = True


def _run_inproc(text, optimize, timeout, want_history, filename, perturb=0):
    """execute in this (small, long-lived) helper process: fork per program does not scale in this sandbox"""
    result = {'outcome': 'ok', 'stdout': '', 'namespace': {}, 'history': []}
    try:
        code = compile(text, filename, 'exec', dont_inherit=True, optimize=optimize)
    except BaseException as e:
        result['outcome'] = 'compile-error:' + type(e).__name__
        return result
    ns = {'__name__': '__vf_prog__', '__builtins__': __builtins__}
    # shift heap addresses (objects, functions, classes, small containers): exposes programs whose output depends on id()/hash order
    junk = []
    if perturb:
        junk = [object() for _ in range(perturb % 1009)] + [(lambda: None) for _ in range(perturb % 53)] + [type('J', (), {}) for _ in range(perturb % 11)] + \
               [[i] for i in range(perturb % 211)] + [{i: i} for i in range(perturb % 97)]
    out = io.StringIO()
    history = []
    if want_history:
        _install_monitoring()
    _mon_state['history'] = history if want_history else None
    _mon_state['filename'] = filename
    timed_out = [False]

    def on_alarm(signum, frame):
        timed_out[0] = True
        raise _Timeout()
    old_stdout = sys.stdout
    old_argv = sys.argv
    old_limit = sys.getrecursionlimit()
    sys.stdout = out
    sys.argv = ['prog']
    sys.setrecursionlimit(1000)
    signal.signal(signal.SIGALRM, on_alarm)
    signal.setitimer(signal.ITIMER_REAL, timeout, 0.25)      # keeps firing: the program may swallow BaseException
    try:
        try:
            exec(code, ns)
        except SystemExit as e:
            result['outcome'] = 'exit:%r' % (e.code,)
        except _Timeout:
            pass
        except BaseException as e:
            result['outcome'] = 'raise:' + exc_name(e)
    finally:
        try:
            signal.setitimer(signal.ITIMER_REAL, 0, 0)
        except _Timeout:
            signal.setitimer(signal.ITIMER_REAL, 0, 0)
        _mon_state['history'] = None
        sys.stdout = old_stdout
        sys.argv = old_argv
        sys.setrecursionlimit(old_limit)
    if timed_out[0]:
        result['outcome'] = 'timeout'
        return result
    nsrep = {}
    for k, v in list(ns.items()):
        if k.startswith('_') or k == '__builtins__':
            continue
        try:
            nsrep[k] = abbreviate(v)
        except Exception as e:
            nsrep[k] = 'unabbreviable:' + type(e).__name__
    result['stdout'] = normalise_stdout(out.getvalue()[:200000])
    result['namespace'] = nsrep
    result['history'] = history
    del junk
    return result


def serve():
    import asyncio, dataclasses, typing, contextlib, functools, collections, itertools, re as _re, math, enum, abc, string, operator   # warm imports for the programs
    stdin = sys.stdin.buffer
    out = os.fdopen(os.dup(1), 'wb', 0)
    os.dup2(2, 1)
    served = 0
    while served < 400:          # the client restarts the helper: bounds state carried between programs
        line = stdin.readline()
        if not line:
            break
        req = json.loads(line.decode('utf-8', 'surrogatepass'))
        if req.get('fork'):
            res = _local_observe(req['text'], req.get('optimize', 0), req.get('timeout', 8.0), req.get('want_history', True), req.get('filename', '<vf-prog>'), req.get('perturb', 0))
        else:
            try:
                res = _run_inproc(req['text'], req.get('optimize', 0), req.get('timeout', 8.0), req.get('want_history', True), req.get('filename', '<vf-prog>'), req.get('perturb', 0))
            except _Timeout:
                res = {'outcome': 'timeout', 'stdout': '', 'namespace': {}, 'history': []}
        served += 1
        out.write((json.dumps(res) + '\n').encode('utf-8', 'surrogatepass'))


def same(a, b):
    """list of differing components"""
    diffs = []
    for k in ('outcome', 'stdout', 'namespace', 'history'):
        if a.get(k) != b.get(k):
            diffs.append(k)
    return diffs


def describe_diff(a, b):
    out = []
    for k in same(a, b):
        x, y = a.get(k), b.get(k)
        if k == 'stdout':
            al, bl = x.split('\n'), y.split('\n')
            for i in range(max(len(al), len(bl))):
                l1 = al[i] if i < len(al) else '<missing>'
                l2 = bl[i] if i < len(bl) else '<missing>'
                if l1 != l2:
                    out.append('stdout line %d: %r vs %r' % (i + 1, l1[:120], l2[:120]))
                    break
        elif k == 'namespace':
            for n in sorted(set(x) | set(y)):
                if x.get(n) != y.get(n):
                    out.append('namespace %s: %r vs %r' % (n, x.get(n), y.get(n)))
                    break
        elif k == 'history':
            for i in range(max(len(x), len(y))):
                e1 = x[i] if i < len(x) else '<missing>'
                e2 = y[i] if i < len(y) else '<missing>'
                if e1 != e2:
                    out.append('event %d of %d/%d: %r vs %r' % (i, len(x), len(y), e1, e2))
                    break
        else:
            out.append('%s: %r vs %r' % (k, x, y))
    return '; '.join(out)


if __name__ == '__main__':
    if '--serve' in sys.argv:
        serve()
