"""Random *compilable* module generator covering (nearly) all statement and expression classes.

Two modes:
  guarded=False  arbitrary compilable modules (structure / scoping / printer properties)
  guarded=True   "semi-runnable": every top-level statement group is wrapped in try/except that prints the
                 exception type, loops are bounded, so the module terminates and prints something observable.

Names come from small pools so bindings in different scopes collide with each other, with the names the
renamer hands out (A, B, _A ...) and with builtins. compile() is the final filter (done by the caller).
"""
from vf import common

LOCAL_POOL = ['a', 'b', 'c', 'x', 'y', 'item', 'value', 'data', 'result', 'total', 'count', 'index', 'A', 'B', 'C', '_A', '_B',
              'tmp', 'acc', 'key', 'name', 'first', 'second']
SHADOW_POOL = ['len', 'list', 'str', 'ValueError', 'object', 'id', 'type', 'print_', 'max', 'KeyError', 'Exception', 'dataclass']
GLOBAL_POOL = ['alpha', 'beta', 'gamma', 'helper', 'Widget', 'Gadget', 'CONFIG', 'registry', 'counter', 'A', 'B', '_A', 'main_value']
ATTR_POOL = ['attr', 'field', 'size', 'name', 'value', 'items', 'method', 'prop', 'A', 'x']
STR_POOL = ['hello', 'hello world', 'key', 'value', 'a', '', 'repeated literal', 'x' * 12, 'name', 'é', "it's", 'say "hi"', '\n', '\\', '{}', 'k']
BYTES_POOL = [b'bytes', b'', b'\x00\xff', b'repeated bytes', b'a']
INT_POOL = [0, 1, 2, 3, 5, 10, 100, 255, 1000, 65536, 12345678]
FLOAT_POOL = [0.0, 1.0, 0.5, 1.5, 2.25, 1e3, 1e-3, 100.0]
EXC_POOL = ['ValueError', 'KeyError', 'TypeError', 'RuntimeError', 'Exception', 'IndexError', 'OSError', 'StopIteration',
            'ZeroDivisionError', 'AttributeError', 'LookupError', 'FileNotFoundError', 'NotImplementedError', 'AssertionError']
IMPORTS = ['os', 'sys', 'math', 'json', 're', 'collections', 'itertools', 'functools', 'os.path', 'string', 'operator', 'typing',
           'collections.abc', 'dataclasses', 'enum', 'abc']
FROM_IMPORTS = [('os', ['path', 'sep', 'getcwd']), ('math', ['floor', 'sqrt', 'pi']), ('collections', ['OrderedDict', 'namedtuple', 'deque']),
                ('itertools', ['chain', 'count', 'islice']), ('functools', ['partial', 'reduce', 'wraps']), ('typing', ['NamedTuple', 'TypedDict', 'Any', 'List']),
                ('dataclasses', ['dataclass', 'field']), ('json', ['dumps', 'loads']), ('os.path', ['join', 'basename'])]
BINOPS = ['+', '-', '*', '//', '%', '&', '|', '^', '<<', '>>', '/', '**', '@']
CMPOPS = ['<', '<=', '>', '>=', '==', '!=', 'is', 'is not', 'in', 'not in']


class Scope(object):
    def __init__(self, kind, parent=None):
        self.kind = kind            # module | def | class | lambda
        self.parent = parent
        self.names = []             # names bound here so far (usable in references)
        self.funcs = []             # (name, n_positional) callables bound here
        self.classes = []
        self.globals_decl = set()
        self.nonlocal_decl = set()
        self.params = set()
        self.used_before_decl = set()

    def visible(self):
        out = list(self.names)
        s = self.parent
        while s is not None:
            if s.kind != 'class':
                out.extend(s.names)
            s = s.parent
        return out

    def enclosing_function_names(self):
        out = []
        s = self.parent
        while s is not None:
            if s.kind == 'def':
                out.extend(n for n in s.names if n not in s.globals_decl)
            s = s.parent
        return out

    def module(self):
        s = self
        while s.parent is not None:
            s = s.parent
        return s


class Ctx(object):
    def __init__(self, scope, func=False, async_=False, loop=False, depth=0, gen=False):
        self.scope = scope
        self.func = func
        self.async_ = async_
        self.loop = loop
        self.depth = depth
        self.gen = gen
        self.star = False

    def sub(self, **kw):
        c = Ctx(self.scope, self.func, self.async_, self.loop, self.depth + 1, self.gen)
        c.star = self.star
        for k, v in kw.items():
            setattr(c, k, v)
        return c


class ModGen(object):
    def __init__(self, r, guarded=False, py38=False, size=14, max_depth=4, features=None):
        self.r = r
        self.guarded = guarded
        self.size = size
        self.max_depth = max_depth
        self.tags = set()
        self.py38 = py38       # restrict to syntax every 3.8+ accepts (no match, except*, type params)
        self.uid = 0
        self.no_walrus = 0
        self.features = features

    # ---- helpers ----------------------------------------------------------------------------------------
    def pick(self, seq):
        return seq[self.r.randrange(len(seq))]

    def chance(self, p):
        return self.r.random() < p

    def new_name(self, ctx, pool=None):
        r = self.r
        if pool is None:
            if ctx.scope.kind == 'module':
                pool = GLOBAL_POOL if r.random() < 0.7 else LOCAL_POOL
            else:
                pool = LOCAL_POOL if r.random() < 0.85 else SHADOW_POOL
        return self.pick(pool)

    def bind(self, ctx, name):
        sc = ctx.scope
        if name in sc.globals_decl:
            m = sc.module()
            if name not in m.names:
                m.names.append(name)
            return
        if name not in sc.names:
            sc.names.append(name)

    def ref(self, ctx):
        vis = ctx.scope.visible()
        if vis and self.chance(0.9):
            return self.pick(vis)
        if self.chance(0.5):
            return self.pick(['len', 'str', 'int', 'list', 'sorted', 'repr', 'sum', 'min', 'max', 'abs', 'range', 'print', 'isinstance', 'tuple', 'dict', 'set', 'bool', 'id', 'type'])
        return self.pick(LOCAL_POOL)

    # ---- expressions -------------------------------------------------------------------------------------------
    def literal(self):
        r = self.r
        k = r.random()
        if k < 0.3:
            return repr(self.pick(INT_POOL))
        if k < 0.6:
            return repr(self.pick(STR_POOL))
        if k < 0.68:
            return repr(self.pick(BYTES_POOL))
        if k < 0.76:
            return repr(self.pick(FLOAT_POOL))
        if k < 0.92:
            return self.pick(['True', 'False', 'None'])
        if k < 0.95:
            return self.pick(['1j', '2.5j', '...'])
        return repr(-self.pick(INT_POOL))

    def int_expr(self, ctx, d):
        r = self.r
        if d <= 0 or self.chance(0.35):
            return repr(self.pick(INT_POOL)) if self.chance(0.6) else self.ref(ctx)
        op = self.pick(['+', '-', '*', '//', '%', '&', '|', '^', '<<', '>>'])
        a = self.int_expr(ctx, d - 1)
        b = self.int_expr(ctx, d - 1)
        if op in ('<<', '>>'):
            b = repr(r.randrange(0, 9))
        if op in ('//', '%'):
            b = repr(self.pick([1, 2, 3, 7, 10]))
        return '(%s %s %s)' % (a, op, b)

    def fold_expr(self, d):
        """literal-only arithmetic (constant folding fodder)"""
        r = self.r
        if d <= 0 or self.chance(0.3):
            k = r.random()
            if k < 0.6:
                return repr(self.pick(INT_POOL))
            if k < 0.8:
                return repr(self.pick(FLOAT_POOL))
            return self.pick(['True', 'False', '-1', '-0.0', '1j'])
        op = self.pick(['+', '-', '*', '//', '%', '&', '|', '^', '<<', '>>', '/', '**'])
        a = self.fold_expr(d - 1)
        b = self.fold_expr(d - 1)
        if op in ('<<', '>>', '**'):
            b = repr(r.randrange(0, 12))
        if self.chance(0.2):
            return '-(%s %s %s)' % (a, op, b)
        return '(%s %s %s)' % (a, op, b)

    def expr(self, ctx, d=None):
        r = self.r
        if d is None:
            d = 2 + r.randrange(2)
        if d <= 0:
            return self.ref(ctx) if self.chance(0.55) else self.literal()
        k = r.random()
        e = lambda: self.expr(ctx, d - 1)
        if k < 0.12:
            return self.literal()
        if k < 0.24:
            return self.ref(ctx)
        if k < 0.34:
            return self.int_expr(ctx, d)
        if k < 0.38:
            self.tags.add('fold')
            return self.fold_expr(d)
        if k < 0.44:
            return '%s %s %s' % (e(), self.pick(CMPOPS), e()) if self.chance(0.8) else '%s < %s <= %s' % (e(), e(), e())
        if k < 0.48:
            return '(%s %s %s)' % (e(), self.pick(['and', 'or']), e())
        if k < 0.51:
            return '(' + self.pick(['not ', '-', '+', '~']) + '(' + e() + '))'
        if k < 0.58:
            return self.call(ctx, d)
        if k < 0.62:
            return '%s.%s' % (self.ref(ctx), self.pick(ATTR_POOL))
        if k < 0.66:
            return '%s[%s]' % (self.ref(ctx), self.pick([e(), '0', '-1', '1:', ':2', '::2', repr(self.pick(STR_POOL))]))
        if k < 0.71:
            kind = r.randrange(4)
            if kind == 0:
                return '[%s]' % ', '.join(e() for _ in range(r.randrange(0, 4)))
            if kind == 1:
                n = r.randrange(0, 4)
                return '(%s%s)' % (', '.join(e() for _ in range(n)), ',' if n == 1 else '')
            if kind == 2:
                return '{%s}' % ', '.join('%s: %s' % (repr(self.pick(STR_POOL)), e()) for _ in range(r.randrange(0, 4)))
            return '{%s}' % ', '.join(e() for _ in range(r.randrange(1, 4)))
        if k < 0.77:
            return self.comprehension(ctx, d)
        if k < 0.80:
            return '(%s if %s else %s)' % (e(), e(), e())
        if k < 0.84:
            return self.lambda_(ctx, d)
        if k < 0.90:
            return self.fstring(ctx, d)
        if k < 0.93 and ctx.scope.kind != 'class' and not self.no_walrus:
            n = self.new_name(ctx, LOCAL_POOL)
            if n not in ctx.scope.nonlocal_decl and n not in ctx.scope.params or True:
                self.tags.add('walrus')
                if ctx.scope.kind != 'lambda':
                    self.bind(ctx, n)
                return '(%s := %s)' % (n, e())
        if k < 0.95 and ctx.gen and not ctx.async_:
            self.tags.add('yield-expr')
            return '(yield %s)' % e()
        if k < 0.97 and ctx.async_:
            return '(await %s)' % self.call(ctx, d)
        if k < 0.985:
            return '[*%s, %s]' % (self.ref(ctx), e()) if self.chance(0.5) else '{**%s, %s: %s}' % (self.ref(ctx), repr(self.pick(STR_POOL)), e())
        return self.literal()

    def call(self, ctx, d):
        r = self.r
        sc = ctx.scope
        funcs = []
        s = sc
        while s is not None:
            if s.kind != 'class' or s is sc:
                funcs.extend(s.funcs)
            s = s.parent
        if funcs and self.chance(0.6):
            name, params = self.pick(funcs)
            args = []
            for (pn, kind, has_default) in params:
                if kind == 'pos':
                    args.append(self.expr(ctx, d - 1))
                elif kind == 'std':
                    if self.chance(0.45):
                        args.append('%s=%s' % (pn, self.expr(ctx, d - 1)))
                        self.tags.add('kwcall')
                    elif not any('=' in a for a in args):
                        args.append(self.expr(ctx, d - 1))
                    else:
                        args.append('%s=%s' % (pn, self.expr(ctx, d - 1)))
                elif kind == 'kwonly':
                    if not has_default or self.chance(0.5):
                        args.append('%s=%s' % (pn, self.expr(ctx, d - 1)))
                elif kind == 'var' and self.chance(0.3) and not any('=' in a for a in args):
                    args.append(self.expr(ctx, d - 1))
                elif kind == 'kw' and self.chance(0.3):
                    args.append('extra_kw=%s' % self.expr(ctx, d - 1))
            return '%s(%s)' % (name, ', '.join(args))
        b = self.pick(['len', 'str', 'repr', 'sorted', 'list', 'sum', 'min', 'max', 'abs', 'int', 'tuple', 'isinstance', 'range', 'print', 'bool', 'type', 'dict', 'set', 'enumerate', 'zip', 'any', 'all'])
        if b == 'isinstance':
            return 'isinstance(%s, %s)' % (self.expr(ctx, d - 1), self.pick(['int', 'str', '(int, str)', 'list', 'object']))
        if b == 'range':
            return 'range(%d)' % r.randrange(0, 5)
        if b == 'print':
            return 'print(%s, sep=%r)' % (self.expr(ctx, d - 1), self.pick(['', ' ', '-']))
        if b in ('zip',):
            return 'list(zip(%s, %s))' % (self.expr(ctx, d - 1), self.expr(ctx, d - 1))
        if b in ('enumerate',):
            return 'list(enumerate(%s))' % self.expr(ctx, d - 1)
        if b in ('sum', 'min', 'max', 'sorted', 'any', 'all') and self.chance(0.4):
            return '%s(%s for %s in range(%d))' % (b, self.pick(['q', 'q * 2', 'q + 1']), 'q', r.randrange(1, 5))
        return '%s(%s)' % (b, self.expr(ctx, d - 1))

    def comprehension(self, ctx, d):
        self.no_walrus += 1
        try:
            return self._comprehension(ctx, d)
        finally:
            self.no_walrus -= 1

    def _comprehension(self, ctx, d):
        r = self.r
        v = self.pick(['i', 'j', 'k', 'x', 'item', 'A', 'a', 'value'])
        src = self.pick(['range(%d)' % r.randrange(0, 5), self.ref(ctx), '[1, 2, 3]', "'abc'", self.expr(ctx, d - 1)])
        inner_scope = Scope('lambda', ctx.scope)   # comprehension scope behaves like a function scope for references
        inner_scope.names.append(v)
        ictx = Ctx(inner_scope, ctx.func, False, False, ctx.depth + 1)
        elt = self.pick([v, '%s * 2' % v, '(%s, %s)' % (v, self.ref(ctx)), self.expr(ictx, d - 1), 'str(%s)' % v])
        cond = ''
        if self.chance(0.4):
            cond = ' if ' + self.pick(['%s' % v, '%s != 1' % v, self.expr(ictx, d - 1)])
        elif self.chance(0.12) and ctx.scope.kind in ('def', 'module') and self.no_walrus == 1:
            self.uid += 1
            w = self.pick(['found', 'last', 'w', 'A']) + str(self.uid)
            self.bind(ctx, w)
            cond = ' if (%s := %s) is not None' % (w, self.pick([v, '%s * 2' % v]))
            self.tags.add('walrus-in-comprehension')
        second = ''
        if self.chance(0.2):
            v2 = self.pick(['m', 'n', 'y', 'B'])
            inner_scope.names.append(v2)
            second = ' for %s in %s' % (v2, self.pick(['range(2)', v if self.chance(0.3) else '(1, 2)', self.ref(ctx)]))
        self.tags.add('comprehension')
        kind = r.randrange(4)
        if kind == 0:
            return '[%s for %s in %s%s%s]' % (elt, v, src, second, cond)
        if kind == 1:
            return '{%s for %s in %s%s%s}' % (elt, v, src, second, cond)
        if kind == 2:
            return '{%s: %s for %s in %s%s%s}' % (v, elt, v, src, second, cond)
        return 'list(%s for %s in %s%s%s)' % (elt, v, src, second, cond)

    def lambda_(self, ctx, d):
        r = self.r
        n = r.randrange(0, 3)
        params = []
        sc = Scope('lambda', ctx.scope)
        for i in range(n):
            p = self.pick(['p', 'q', 'x', 'a', 'value', 'A'])
            if p in sc.names:
                continue
            sc.names.append(p)
            params.append(p if self.chance(0.7) else '%s=%s' % (p, self.literal()))
        params.sort(key=lambda s: '=' in s)
        if self.chance(0.15):
            params.append('*rest')
            sc.names.append('rest')
        if self.chance(0.15):
            params.append('**kw')
            sc.names.append('kw')
        ictx = Ctx(sc, True, False, False, ctx.depth + 1)
        self.tags.add('lambda')
        return '(lambda %s: %s)' % (', '.join(params), self.expr(ictx, d - 1))

    def fstring(self, ctx, d):
        r = self.r
        parts = []
        for _ in range(r.randrange(1, 4)):
            k = r.random()
            if k < 0.35:
                parts.append(self.pick(['text ', 'a', ' = ', 'key', '{{', '}}', 'it"s' if False else 'its', '%', ':']))
            else:
                e = self.pick([self.ref(ctx), self.int_expr(ctx, 1), "%s[%s]" % (self.ref(ctx), '0'), repr(self.pick(STR_POOL)).replace('\\', '') if True else 'x',
                               'len(%s)' % self.ref(ctx), '%s.%s' % (self.ref(ctx), self.pick(ATTR_POOL))])
                if "'" in e and '"' in e:
                    e = self.ref(ctx)
                if '\\' in e or '\n' in e:
                    e = self.ref(ctx)
                conv = self.pick(['', '', '!r', '!s', '!a'])
                spec = self.pick(['', '', ':>5', ':03d' if False else ':5', ':{%s}' % self.pick(['3', self.ref(ctx)])])
                if self.chance(0.1):
                    parts.append('{%s=}' % e)
                else:
                    parts.append('{%s%s%s}' % (e, conv, spec))
        body = ''.join(parts)
        self.tags.add('fstring')
        q = '"' if "'" in body else "'"
        if q in body:
            return repr(self.pick(STR_POOL))
        return 'f' + q + body + q

    # ---- statements ------------------------------------------------------------------------------------------------
    def block(self, ctx, n=None, allow_empty_marker=True):
        r = self.r
        if n is None:
            n = 1 + r.randrange(3)
        lines = []
        if ctx.depth >= self.max_depth:
            n = min(n, 2)
        for _ in range(n):
            lines.extend(self.stmt(ctx))
        if not lines:
            lines = ['pass']
        return lines

    @staticmethod
    def indent(lines):
        return ['    ' + l for l in lines]

    def target(self, ctx):
        r = self.r
        k = r.random()
        if k < 0.75 or ctx.scope.kind == 'class':
            n = self.new_name(ctx)
            if n in ctx.scope.nonlocal_decl:
                return n
            self.bind(ctx, n)
            return n
        if k < 0.85:
            a, b = self.new_name(ctx), self.new_name(ctx)
            self.bind(ctx, a)
            self.bind(ctx, b)
            return self.pick(['%s, %s', '(%s, %s)', '[%s, %s]', '%s, *%s']) % (a, b)
        if k < 0.93:
            return '%s.%s' % (self.ref(ctx), self.pick(ATTR_POOL))
        return '%s[%s]' % (self.ref(ctx), self.expr(ctx, 1))

    def stmt(self, ctx):
        r = self.r
        deep = ctx.depth >= self.max_depth
        k = r.random()
        sc = ctx.scope
        if self.features and self.chance(0.35):
            f = self.pick(self.features)
            out = getattr(self, 'f_' + f)(ctx)
            if out:
                return out
        if k < 0.16:
            t = self.target(ctx)
            v = self.expr(ctx)
            if ',' in t and not t.startswith(('(', '[')) or t.startswith(('(', '[')):
                v = '(%s, %s)' % (self.expr(ctx, 1), self.expr(ctx, 1)) if '*' not in t else '[%s, %s, %s]' % (self.expr(ctx, 1), self.expr(ctx, 1), self.expr(ctx, 1))
            if self.chance(0.1) and ',' not in t:
                t2 = self.target(ctx)
                if ',' not in t2:
                    return ['%s = %s = %s' % (t, t2, v)]
            return ['%s = %s' % (t, v)]
        if k < 0.20:
            n = self.pick(sc.names) if sc.names else None
            if n is None or n in sc.params and False:
                return ['pass']
            return ['%s %s= %s' % (n, self.pick(['+', '-', '*', '|', '&', '//']), self.int_expr(ctx, 1))]
        if k < 0.235:
            return self.f_annassign(ctx)
        if k < 0.32:
            if self.chance(0.7):
                return ['print(%s)' % ', '.join(self.expr(ctx) for _ in range(1 + r.randrange(2)))]
            return [self.call(ctx, 2)]
        if k < 0.40 and not deep:
            return self.f_if(ctx)
        if k < 0.45 and not deep:
            return self.f_for(ctx)
        if k < 0.48 and not deep:
            return self.f_while(ctx)
        if k < 0.54 and not deep:
            return self.f_try(ctx)
        if k < 0.57 and not deep:
            return self.f_with(ctx)
        if k < 0.67 and not deep:
            return self.f_def(ctx)
        if k < 0.72 and not deep:
            return self.f_class(ctx)
        if k < 0.76 and ctx.func:
            return self.f_return(ctx)
        if k < 0.78 and ctx.func and ctx.gen:
            self.tags.add('yield')
            if ctx.async_ or self.chance(0.7):
                return ['yield %s' % self.expr(ctx, 1)]
            return ['yield from %s' % self.pick(['range(2)', '[1, 2]', self.ref(ctx)])]
        if k < 0.815:
            return self.f_raise(ctx)
        if k < 0.835:
            self.tags.add('assert')
            return ['assert %s%s' % (self.expr(ctx, 1), (', ' + self.expr(ctx, 1)) if self.chance(0.4) else '')]
        if k < 0.85:
            return self.f_del(ctx)
        if k < 0.875:
            self.tags.add('pass')
            return ['pass']
        if k < 0.895:
            self.tags.add('literal-stmt')
            return [self.pick([repr(self.pick(STR_POOL)), '0', '1.5', 'None', 'True', "b'x'", '...', '"""doc string"""'])]
        if k < 0.93:
            return self.f_import(ctx)
        if k < 0.975 and not deep and not self.py38:
            return self.f_match(ctx)
        if k < 0.985 and ctx.loop:
            return [self.pick(['break', 'continue'])]
        if k < 0.993:
            return self.f_debug(ctx)
        return ['%s = %s' % (self.target(ctx), self.expr(ctx))]

    # --- feature statements (also callable directly through `features`) ---
    def f_annassign(self, ctx):
        sc = ctx.scope
        n = self.new_name(ctx)
        if n in sc.globals_decl or n in sc.nonlocal_decl or n in sc.params:
            return ['pass']
        ann = self.pick(['int', 'str', "'Forward'", 'list', 'typing.List[int]' if False else 'dict', 'object', 'None', '0', 'int | None' if False else 'float'])
        self.tags.add('annassign')
        if self.chance(0.65):
            self.bind(ctx, n)
            return ['%s: %s = %s' % (n, ann, self.expr(ctx, 1))]
        self.tags.add('annassign-novalue')
        sc.names_ann_only = getattr(sc, 'names_ann_only', set()) | {n}
        return ['%s: %s' % (n, ann)]

    def f_if(self, ctx):
        r = self.r
        out = ['if %s:' % self.expr(ctx, 2)] + self.indent(self.block(ctx.sub()))
        for _ in range(r.randrange(0, 2)):
            out += ['elif %s:' % self.expr(ctx, 1)] + self.indent(self.block(ctx.sub()))
        if self.chance(0.4):
            out += ['else:'] + self.indent(self.block(ctx.sub()))
        return out

    def f_debug(self, ctx):
        self.tags.add('debug')
        test = self.pick(['__debug__', '__debug__ is True', '__debug__ is not False', '__debug__ == True', 'not __debug__', '__debug__ is False',
                          '%s is True' % self.ref(ctx), '__debug__ and %s' % self.ref(ctx), 'True is __debug__', '__debug__ != False'])
        out = ['if %s:' % test] + self.indent(self.block(ctx.sub(), 1))
        if self.chance(0.3):
            out += ['else:'] + self.indent(self.block(ctx.sub(), 1))
        elif self.chance(0.15):
            out += ['elif %s:' % self.ref(ctx)] + self.indent(self.block(ctx.sub(), 1))
        return out

    def f_for(self, ctx):
        r = self.r
        t = self.target(ctx) if self.chance(0.8) else 'i'
        if t == 'i':
            self.bind(ctx, 'i')
        it = self.pick(['range(%d)' % r.randrange(0, 4), '[1, 2, 3]', self.ref(ctx), "'ab'", 'enumerate([5, 6])' if ',' in t else 'range(2)'])
        if ',' in t:
            it = self.pick(['[(1, 2), (3, 4)]', 'enumerate([5, 6])', 'zip([1], [2])']) if '*' not in t else '[(1, 2, 3)]'
        kw = 'async for' if (ctx.async_ and self.chance(0.3)) else 'for'
        if kw == 'async for':
            it = 'agen()'
        out = ['%s %s in %s:' % (kw, t, it)] + self.indent(self.block(ctx.sub(loop=True)))
        if self.chance(0.2):
            out += ['else:'] + self.indent(self.block(ctx.sub(), 1))
        return out

    def f_while(self, ctx):
        self.uid += 1
        c = 'guard%d' % self.uid if self.chance(0.5) else self.new_name(ctx, ['count', 'index', 'tmp'])
        if c in ctx.scope.nonlocal_decl or c in ctx.scope.globals_decl:
            c = 'guard%d' % self.uid
        self.bind(ctx, c)
        body = self.block(ctx.sub(loop=True))
        # make sure the counter assignment cannot be skipped by `continue`
        body = ['%s += 1' % c] + [(b if not b.strip().startswith(c + ' ') else b[:len(b) - len(b.lstrip())] + 'pass') for b in body]
        out = ['%s = 0' % c, 'while %s < %d:' % (c, self.r.randrange(1, 4))] + self.indent(body)
        if self.chance(0.2):
            out += ['else:'] + self.indent(self.block(ctx.sub(), 1))
        return out

    def f_try(self, ctx):
        r = self.r
        star = (not self.py38) and self.chance(0.08)
        out = ['try:'] + self.indent(self.block(ctx.sub()))
        kinds = r.randrange(4)
        nh = 1 + r.randrange(2) if kinds != 3 else 0
        if star:
            nh = max(nh, 1)
        for i in range(nh):
            exc = self.pick(EXC_POOL)
            if self.chance(0.2):
                exc = '(%s, %s)' % (exc, self.pick(EXC_POOL))
            name = ''
            if self.chance(0.5):
                n = self.new_name(ctx, ['e', 'err', 'exc', 'x', 'A'])
                if n not in ctx.scope.nonlocal_decl:
                    self.bind(ctx, n)
                    name = ' as ' + n
            if star:
                self.tags.add('except*')
                out += ['except* %s%s:' % (exc, name)]
            elif i == nh - 1 and self.chance(0.15) and not name:
                out += ['except:']
            else:
                out += ['except %s%s:' % (exc, name)]
            sub = ctx.sub(loop=False, star=True) if star else ctx.sub()
            out += self.indent(self.block(sub, 1 + r.randrange(2)))
        if nh and self.chance(0.25):
            out += ['else:'] + self.indent(self.block(ctx.sub(), 1))
        if nh == 0 or self.chance(0.25):
            out += ['finally:'] + self.indent(self.block(ctx.sub(loop=False), 1))
        return out

    def f_with(self, ctx):
        r = self.r
        items = []
        for _ in range(1 + (1 if self.chance(0.2) else 0)):
            e = self.pick(['open(%r)' % '/dev/null', 'ctx()', self.ref(ctx), 'contextlib.suppress(Exception)' if False else 'memoryview(b"ab")'])
            if self.chance(0.5):
                n = self.new_name(ctx, ['fh', 'cm', 'x', 'value', 'A'])
                if n not in ctx.scope.nonlocal_decl:
                    self.bind(ctx, n)
                    e += ' as ' + n
            items.append(e)
        kw = 'async with' if (ctx.async_ and self.chance(0.3)) else 'with'
        return ['%s %s:' % (kw, ', '.join(items))] + self.indent(self.block(ctx.sub()))

    def params(self, sc, method=False, lam=False):
        r = self.r
        ps = []
        text = []
        used = set()

        def fresh(pool):
            for _ in range(10):
                n = self.pick(pool)
                if n not in used:
                    used.add(n)
                    return n
            self.uid += 1
            n = 'p%d' % self.uid
            used.add(n)
            return n
        pool = ['a', 'b', 'x', 'y', 'value', 'item', 'data', 'key', 'name', 'first', 'second', 'A', 'B', 'count', 'list', 'len']
        if method:
            first = self.pick(['self', 'self', 'self', 'cls', 'this', 's'])
            used.add(first)
            text.append(first)
            ps.append((first, 'self', False))
        npos = r.randrange(0, 2) if self.chance(0.25) else 0
        seen_default = False
        for _ in range(npos):
            n = fresh(pool)
            d = ''
            if seen_default or self.chance(0.2):
                d = '=' + self.literal()
                seen_default = True
            text.append(n + self.ann() + d)
            ps.append((n, 'pos', bool(d)))
        if npos:
            text.append('/')
            self.tags.add('posonly')
        for _ in range(r.randrange(0, 3)):
            n = fresh(pool)
            d = ''
            if seen_default or self.chance(0.3):
                d = '=' + self.literal()
                seen_default = True
            text.append(n + self.ann() + d)
            ps.append((n, 'std', bool(d)))
        star = False
        if self.chance(0.2):
            n = fresh(['args', 'rest', 'more', 'A'])
            text.append('*' + n + self.ann())
            ps.append((n, 'var', False))
            star = True
        nkw = r.randrange(0, 2) if self.chance(0.3) else 0
        if nkw and not star:
            text.append('*')
        for _ in range(nkw):
            n = fresh(pool)
            d = ('=' + self.literal()) if self.chance(0.5) else ''
            text.append(n + self.ann() + d)
            ps.append((n, 'kwonly', bool(d)))
            self.tags.add('kwonly')
        if self.chance(0.15):
            n = fresh(['kwargs', 'kw', 'options', 'B'])
            text.append('**' + n + self.ann())
            ps.append((n, 'kw', False))
        for n, kind, _ in ps:
            sc.names.append(n)
            sc.params.add(n)
        return ', '.join(text), ps

    def ann(self):
        if self.chance(0.25):
            self.tags.add('arg-annotation')
            return ': ' + self.pick(['int', 'str', "'T'", 'list', 'object', 'dict', 'float'])
        return ''

    def f_def(self, ctx):
        r = self.r
        sc = ctx.scope
        name = self.new_name(ctx, ['helper', 'compute', 'inner', 'build', 'fn', 'method', 'process', 'A', 'f', 'g', 'make', 'visit'] if sc.kind != 'module' else
                             ['helper', 'compute', 'build', 'process', 'alpha', 'beta', 'main', 'A', 'make'])
        if name in sc.nonlocal_decl or name in sc.params:
            self.uid += 1
            name = 'fn%d' % self.uid
        if self.guarded:
            # a name defined twice would be called with the arguments of the older signature (keyword for what is now positional-only)
            self.defnames = getattr(self, 'defnames', set())
            if name in self.defnames:
                self.uid += 1
                name = '%s_%d' % (name, self.uid)
            self.defnames.add(name)
        is_async = self.chance(0.08)
        is_gen = self.chance(0.12)
        fsc = Scope('def', sc)
        ptext, ps = self.params(fsc, method=(sc.kind == 'class' and self.chance(0.9)))
        out = []
        deco = None
        if sc.kind == 'class' and ps and ps[0][1] == 'self' and self.chance(0.25):
            deco = self.pick(['classmethod', 'staticmethod', 'property'])
            if deco == 'staticmethod':
                pass
            if deco == 'property' and len(ps) > 1:
                deco = 'classmethod'
        elif self.chance(0.1):
            deco = self.pick(['functools.wraps(print)' if False else 'staticmethod' if sc.kind == 'class' else 'identity', 'identity'])
        if deco:
            out.append('@' + deco)
            self.tags.add('decorator')
        ret = ''
        if self.chance(0.2):
            ret = ' -> ' + self.pick(['int', 'None', "'R'", 'str', 'list'])
            self.tags.add('return-annotation')
        fctx = Ctx(fsc, True, is_async, False, ctx.depth + 1, gen=is_gen)
        body = []
        if self.chance(0.2):
            body.append(self.pick(['"""docstring"""', "'doc'", '"""repeated literal"""']))
            self.tags.add('docstring')
        if self.chance(0.12):
            body += self.f_global(fctx)
        if self.chance(0.2):
            body += [b for b in self.f_nonlocal(fctx) if b != 'pass']
        body += self.block(fctx, 1 + r.randrange(4))
        if is_gen and not any('yield' in b for b in body):
            body.append('yield %s' % self.expr(fctx, 1))
        if not is_gen and self.chance(0.7):
            body += self.f_return(fctx)
        out.append('%sdef %s(%s)%s:' % ('async ' if is_async else '', name, ptext, ret))
        out += self.indent(body)
        self.bind(ctx, name)
        callable_ps = [p for p in ps if p[1] != 'self']
        if deco in (None, 'identity', 'staticmethod', 'classmethod') and not is_async and sc.kind != 'class':
            sc.funcs.append((name, callable_ps))
        self.tags.add('def')
        if is_async:
            self.tags.add('async')
        if is_gen:
            self.tags.add('generator')
        return out

    def f_class(self, ctx):
        r = self.r
        sc = ctx.scope
        name = self.new_name(ctx, ['Widget', 'Gadget', 'Node', 'Item', 'Base', 'Thing', 'A', 'Config'])
        if name in sc.nonlocal_decl or name in sc.params:
            self.uid += 1
            name = 'Klass%d' % self.uid
        bases = []
        k = r.random()
        special = None
        if k < 0.25:
            bases.append('object')
            self.tags.add('object-base')
        elif k < 0.33:
            special = self.pick(['NamedTuple', 'TypedDict', 'typing.NamedTuple'])
            bases.append(special)
        elif k < 0.45 and sc.classes:
            bases.append(self.pick(sc.classes))
        elif k < 0.5:
            bases += ['object', 'Exception' if False else 'dict'][:1 + r.randrange(2)]
        out = []
        dc = False
        if special is None and self.chance(0.15):
            out.append(self.pick(['@dataclass', '@dataclasses.dataclass', '@dataclass(frozen=True)', '@dataclasses.dataclass()']))
            dc = True
            self.tags.add('dataclass')
        kw = ''
        if self.chance(0.05) and special is None:
            kw = ', metaclass=type' if bases else 'metaclass=type'
        csc = Scope('class', sc)
        cctx = Ctx(csc, False, False, False, ctx.depth + 1)
        body = []
        if self.chance(0.2):
            body.append('"""class doc"""')
        if special or dc:
            for _ in range(1 + r.randrange(3)):
                n = self.pick(['alpha', 'beta', 'size', 'name', 'x', 'y', 'count'])
                if n in csc.names:
                    continue
                csc.names.append(n)
                tp = self.pick(['int', 'str', 'float', 'list'])
                if special and 'TypedDict' in special:
                    body.append('%s: %s' % (n, tp))
                elif dc and self.chance(0.3):
                    body.append('if True:')
                    body.append('    %s: %s = %s' % (n, tp, self.pick(['0', "'d'", 'None'])))
                    self.tags.add('nested-class-attr')
                else:
                    body.append('%s: %s = %s' % (n, tp, self.pick(['0', "'d'", 'None', '1.5'])))
            self.tags.add('protected-annotations')
        else:
            body += self.block(cctx, 1 + r.randrange(3))
        if self.chance(0.15) and not special and not dc:
            body.append('__slots__ = (%r, %r)' % (self.pick(STR_POOL[:6]), 'repeated literal'))
            self.tags.add('slots')
        out.append('class %s%s:' % (name, ('(' + ', '.join(bases) + kw + ')') if (bases or kw) else ''))
        out += self.indent(body)
        self.bind(ctx, name)
        sc.classes.append(name)
        self.tags.add('class')
        return out

    def f_return(self, ctx):
        if not ctx.func or ctx.scope.kind != 'def' or ctx.star:
            return ['pass']
        if ctx.gen and ctx.async_:
            return ['return']
        k = self.r.random()
        self.tags.add('return')
        if k < 0.2:
            self.tags.add('return-none')
            return ['return None']
        if k < 0.3:
            return ['return']
        if k < 0.5:
            names = [n for n in ctx.scope.names][:4]
            if names:
                return ['return (%s)' % ''.join(n + ', ' for n in names)]
        return ['return %s' % self.expr(ctx, 2)]

    def f_raise(self, ctx):
        r = self.r
        self.tags.add('raise')
        exc = self.pick(EXC_POOL)
        k = r.random()
        if k < 0.35:
            self.tags.add('raise-call-noargs')
            s = 'raise %s()' % exc
        elif k < 0.5:
            s = 'raise %s' % exc
        elif k < 0.7:
            s = 'raise %s(%s)' % (exc, self.expr(ctx, 1))
        elif k < 0.85:
            s = 'raise %s() from %s()' % (exc, self.pick(EXC_POOL))
            self.tags.add('raise-call-noargs')
        elif k < 0.92:
            s = 'raise %s() from None' % exc
        else:
            s = 'raise'
        if self.chance(0.6):
            return ['if %s:' % self.expr(ctx, 1), '    ' + s]
        return [s]

    def f_del(self, ctx):
        sc = ctx.scope
        cands = [n for n in sc.names if n not in sc.params or True]
        if not cands or sc.kind == 'class' and False:
            return ['pass']
        n = self.pick(cands)
        self.tags.add('del')
        if self.chance(0.3):
            return ['del %s[%s]' % (n, self.pick(['0', "'k'"]))]
        return ['del %s' % n]

    def f_import(self, ctx):
        r = self.r
        sc = ctx.scope
        out = []
        self.tags.add('import')
        for _ in range(1 + r.randrange(3)):
            if self.chance(0.55):
                m = self.pick(IMPORTS)
                if self.chance(0.3):
                    n = self.new_name(ctx, ['mod', 'm', 'np', 'A', 'os_', 'utils'])
                    if n in sc.nonlocal_decl or n in sc.params:
                        continue
                    self.bind(ctx, n)
                    out.append('import %s as %s' % (m, n))
                else:
                    top = m.split('.')[0]
                    if top in sc.nonlocal_decl or top in sc.params:
                        continue
                    self.bind(ctx, top)
                    if self.chance(0.25):
                        m2 = self.pick(IMPORTS)
                        t2 = m2.split('.')[0]
                        if t2 not in sc.nonlocal_decl and t2 not in sc.params:
                            self.bind(ctx, t2)
                            out.append('import %s, %s' % (m, m2))
                            continue
                    out.append('import %s' % m)
            else:
                m, names = self.pick(FROM_IMPORTS)
                k = 1 + r.randrange(min(2, len(names)))
                chosen = r.sample(names, k)
                parts = []
                for c in chosen:
                    if self.chance(0.25):
                        n = self.new_name(ctx, ['alias', 'al', 'B', 'j'])
                        if n in sc.nonlocal_decl or n in sc.params:
                            continue
                        self.bind(ctx, n)
                        parts.append('%s as %s' % (c, n))
                    else:
                        if c in sc.nonlocal_decl or c in sc.params:
                            continue
                        self.bind(ctx, c)
                        parts.append(c)
                if parts:
                    out.append('from %s import %s' % (m, ', '.join(parts)))
        return out or ['pass']

    def f_global(self, ctx):
        sc = ctx.scope
        m = sc.module()
        n = self.pick(GLOBAL_POOL)
        if n in sc.names or n in sc.params or n in sc.nonlocal_decl or n in sc.used_before_decl:
            return ['pass']
        # a name used earlier in this function cannot be declared global afterwards: only declare fresh ones
        self.uid += 1
        n = n if self.chance(0.5) and False else '%s_g%d' % (n, self.uid)
        sc.globals_decl.add(n)
        if n not in m.names:
            m.names.append(n)
        self.tags.add('global')
        return ['global %s' % n, '%s = %s' % (n, self.expr(ctx, 1))]

    def f_nonlocal(self, ctx):
        sc = ctx.scope
        cands = [n for n in sc.enclosing_function_names() if n not in sc.names and n not in sc.params and n not in sc.globals_decl]
        if not cands:
            return ['pass']
        n = self.pick(cands)
        # must not have been referenced before in this scope: use a marker to keep it simple - only at function start
        if getattr(sc, 'stmts_emitted', 0) > 0 and False:
            return ['pass']
        sc.nonlocal_decl.add(n)
        self.tags.add('nonlocal')
        return ['nonlocal %s' % n, '%s = %s' % (n, self.expr(ctx, 1))]

    def f_match(self, ctx):
        r = self.r
        self.tags.add('match')
        out = ['match %s:' % self.expr(ctx, 1)]
        for _ in range(1 + r.randrange(3)):
            pat = self.pattern(ctx, 2)
            guard = (' if ' + self.expr(ctx, 1)) if (self.chance(0.25) or pat.isidentifier()) else ''
            out.append('    case %s%s:' % (pat, guard))
            out += self.indent(self.indent(self.block(ctx.sub(), 1)))
        if self.chance(0.5):
            out.append('    case _:')
            out += self.indent(self.indent(self.block(ctx.sub(), 1)))
        return out

    def pattern(self, ctx, d):
        r = self.r
        k = r.random()
        cap = lambda: self._capture(ctx)
        if d <= 0 or k < 0.3:
            return self.pick([repr(self.pick(INT_POOL)), repr(self.pick(STR_POOL)), 'None', 'True', '-1', '1.5', '2+3j', "b'b'", 'math.pi' if False else 'os.sep' if False else '0'])
        if k < 0.45:
            return cap()
        if k < 0.6:
            return '[%s]' % ', '.join([self.pattern(ctx, d - 1) for _ in range(r.randrange(1, 3))] + (['*' + cap()] if self.chance(0.3) else []))
        if k < 0.7:
            keys = r.sample(STR_POOL[:5], r.randrange(1, 3))
            return '{%s%s}' % (', '.join('%r: %s' % (kk, self.pattern(ctx, d - 1)) for kk in keys), (', **' + cap()) if self.chance(0.3) else '')
        if k < 0.8:
            return '%s(%s)' % (self.pick(['int', 'str', 'list', 'dict']), cap() if self.chance(0.5) else '')
        if k < 0.9:
            return '%s | %s' % (self.pick(['1', "'a'", 'None']), self.pick(['2', "'b'", 'False']))
        return '(%s) as %s' % (self.pick(['1 | 2', 'int()', '[_, _]']), cap())

    def _capture(self, ctx):
        self.uid += 1
        n = self.pick(['m', 'cap', 'rest', 'x', 'A']) + ('%d' % self.uid)
        if ctx.scope.kind != 'class':
            self.bind(ctx, n)
        else:
            ctx.scope.names.append(n)
        return n

    # ---- module ----------------------------------------------------------------------------------------------------
    PRELUDE = [
        'import dataclasses, typing, contextlib, functools',
        'from dataclasses import dataclass',
        'from typing import NamedTuple, TypedDict',
        'def identity(fn):',
        '    return fn',
        'class ctx:',
        '    def __enter__(self):',
        '        return self',
        '    def __exit__(self, *exc):',
        '        return False',
        'async def agen():',
        '    yield 1',
    ]

    def module(self):
        r = self.r
        sc = Scope('module')
        sc.names += ['identity']
        ctx = Ctx(sc)
        lines = []
        if self.chance(0.3):
            lines.append(self.pick(['"""module docstring"""', "'repeated literal'"]))
            self.tags.add('module-doc')
        if self.chance(0.15):
            lines.append('from __future__ import annotations')
            self.tags.add('future')
        lines += self.PRELUDE
        n = self.size // 2 + r.randrange(self.size)
        for i in range(n):
            st = self.stmt(ctx)
            if self.guarded:
                # definitions stay at top level (so later statements can use them); other statements are guarded
                if st and (st[0].startswith(('def ', 'class ', '@', 'async def ', 'import ', 'from ', 'global ')) or len(st) == 1 and st[0] in ('pass',)):
                    lines += st
                else:
                    lines += ['try:'] + self.indent(st) + ['except BaseException as _e:', '    print(type(_e).__name__)']
            else:
                lines += st
        if self.guarded:
            lines.append("print(sorted(k for k in list(vars()) if not k.startswith('_') and isinstance(vars()[k], (int, str, float, tuple, bool, type(None), bytes))) if False else 'end')")
        return '\n'.join(lines) + '\n'


def generate(seed, index, guarded=False, size=14, py38=False, features=None, max_depth=4):
    r = common.rng(seed, 'modgen', index, guarded, size)
    g = ModGen(r, guarded=guarded, size=size, py38=py38, features=features, max_depth=max_depth)
    src = g.module()
    return src, sorted(g.tags)
