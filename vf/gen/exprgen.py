"""Expression / statement shape generators for the printer properties (C02, C08, C12).

Every case is *source text*; the intended tree is forced by parenthesising each child, so the parser
produces exactly the (parent, slot, child) combination and the printer under test has to decide on
parentheses and token spacing itself. Cases an interpreter cannot parse are filtered by that interpreter.
"""
from vf import common

# ---- children: one or more representatives per expression class ---------------------------------------
ATOMS = [
    ('Name', 'a'), ('Int', '1'), ('Int0', '0'), ('BigInt', '123456789012345678901234567890'),
    ('Float', '1.5'), ('FloatInt', '1.0'), ('FloatExp', '1e100'), ('FloatSmall', '1e-07'), ('Inf', '1e999'),
    ('Complex', '2j'), ('ComplexF', '1.5j'), ('Str', "'s'"), ('StrEmpty', "''"), ('Bytes', "b'b'"),
    ('None', 'None'), ('True', 'True'), ('False', 'False'), ('Ellipsis', '...'),
]
# templates: (tag, text with {0}.. slots, context)   context: e=plain  g=needs def (yield)  a=needs async def
EXPR_TEMPLATES = [
    ('And', '{0} and {1}', 'e'), ('Or', '{0} or {1}', 'e'), ('And3', '{0} and {1} and {2}', 'e'),
    ('Add', '{0}+{1}', 'e'), ('Sub', '{0}-{1}', 'e'), ('Mult', '{0}*{1}', 'e'), ('Div', '{0}/{1}', 'e'),
    ('FloorDiv', '{0}//{1}', 'e'), ('Mod', '{0}%{1}', 'e'), ('Pow', '{0}**{1}', 'e'), ('MatMult', '{0}@{1}', 'e'),
    ('LShift', '{0}<<{1}', 'e'), ('RShift', '{0}>>{1}', 'e'), ('BitOr', '{0}|{1}', 'e'), ('BitXor', '{0}^{1}', 'e'),
    ('BitAnd', '{0}&{1}', 'e'),
    ('Not', 'not {0}', 'e'), ('USub', '-{0}', 'e'), ('UAdd', '+{0}', 'e'), ('Invert', '~{0}', 'e'),
    ('Lambda', 'lambda:{0}', 'e'), ('LambdaDef', 'lambda x={0},*y,z={1},**k:x', 'e'),
    ('IfExp', '{0} if {1} else {2}', 'e'),
    ('Dict', '{{{0}:{1}}}', 'e'), ('DictStar', '{{**{0},{1}:{2}}}', 'e'), ('Set', '{{{0},{1}}}', 'e'), ('Set1', '{{{0}}}', 'e'),
    ('List', '[{0},{1}]', 'e'), ('Tuple', '({0},{1})', 'e'), ('Tuple1', '({0},)', 'e'),
    ('ListComp', '[{0} for x in {1} if {2}]', 'e'), ('SetComp', '{{{0} for x in {1}}}', 'e'),
    ('DictComp', '{{{0}:{1} for x in {2} if {3}}}', 'e'), ('GenExp', '({0} for x in {1} if {2} if {3})', 'e'),
    ('Comp2', '[{0} for x in {1} for y in {2}]', 'e'), ('AsyncComp', '[{0} async for x in {1}]', 'a'),
    ('Await', 'await {0}', 'a'), ('Yield', '(yield {0})', 'g'), ('YieldFrom', '(yield from {0})', 'g'),
    ('Lt', '{0}<{1}', 'e'), ('Eq', '{0}=={1}', 'e'), ('In', '{0} in {1}', 'e'), ('NotIn', '{0} not in {1}', 'e'),
    ('Is', '{0} is {1}', 'e'), ('IsNot', '{0} is not {1}', 'e'), ('Chain', '{0}<{1}<={2}', 'e'),
    ('Call', '{0}({1},*{2},k={3},**{4})', 'e'), ('CallGen', 'f({0} for x in {1})', 'e'), ('Call0', '{0}()', 'e'),
    ('FStr', "f'{{{0}}}'", 'e'), ('FStrConv', "f'x{{{0}!r:>{{{1}}}}}y'", 'e'), ('FStrEq', "f'{{{0}=}}'", 'e'),
    ('FStr2', "f'{{{0}}}{{{1}:{{{2}}}.{{{3}}}}}'", 'e'),
    ('Attr', '{0}.b', 'e'), ('Sub1', '{0}[{1}]', 'e'), ('Slice', '{0}[{1}:{2}:{3}]', 'e'), ('SliceT', '{0}[{1}:{2},{3}]', 'e'),
    ('SubTuple', '{0}[{1},{2}]', 'e'), ('SliceOpen', '{0}[{1}:]', 'e'), ('SubStar', '{0}[*{1}]', 'e'),
    ('Starred', '[*{0}]', 'e'), ('StarTuple', '(*{0},{1})', 'e'),
    ('Walrus', '({0}:={1})'.replace('{0}', 'w').replace('{1}', '{0}'), 'e'),
]
STMT_TEMPLATES = [
    ('Expr', '{0}', 'e'), ('Assign', 'x={0}', 'e'), ('Assign2', 'x=y={0}', 'e'), ('AssignTgt', '{0}.t={1}', 'e'),
    ('AssignSub', 'x[{0}]={1}', 'e'), ('AssignStar', 'x,*y={0}', 'e'), ('AssignTup', 'x={0},{1}', 'e'),
    ('AugAssign', 'x+={0}', 'e'), ('AugPow', 'x**={0}', 'e'), ('AugTup', 'x+={0},{1}', 'e'),
    ('AnnAssign', 'x:{0}={1}', 'e'), ('AnnOnly', 'x:{0}', 'e'), ('AnnAttr', '({0}).t:{1}', 'e'), ('AnnTup', 'x:{0}={1},{2}', 'e'),
    ('Return', 'return {0}', 'g'), ('ReturnTup', 'return {0},{1}', 'g'), ('ReturnStar', 'return {0},*{1}', 'g'),
    ('YieldStmt', 'yield {0}', 'g'), ('YieldTup', 'yield {0},{1}', 'g'), ('YieldAssign', 'x=yield {0}', 'g'),
    ('AwaitStmt', 'await {0}', 'a'),
    ('Del', 'del {0}.t,x[{1}]', 'e'), ('If', 'if {0}:pass\nelif {1}:pass', 'e'), ('While', 'while {0}:pass', 'e'),
    ('For', 'for x in {0}:pass', 'e'), ('ForTup', 'for x in {0},{1}:pass', 'e'), ('ForStar', 'for x in *{0},{1}:pass', 'e'),
    ('ForTgt', 'for {0}.t in {1}:pass', 'e'), ('AsyncFor', 'async for x in {0}:pass', 'a'),
    ('With', 'with {0} as x,{1}:pass', 'e'), ('With1', 'with {0}:pass', 'e'), ('WithAs', 'with {0} as ({1}).t:pass', 'e'),
    ('AsyncWith', 'async with {0} as x:pass', 'a'),
    ('Raise', 'raise {0} from {1}', 'e'), ('Raise1', 'raise {0}', 'e'), ('Assert', 'assert {0},{1}', 'e'),
    ('Try', 'try:pass\nexcept {0} as e:pass', 'e'), ('TryStar', 'try:pass\nexcept* {0}:pass', 'e'),
    ('Decorator', '@{0}\ndef g():pass', 'e'), ('ClassDeco', '@{0}\nclass G({1},metaclass={2}):pass', 'e'),
    ('Default', 'def g(p={0},*,q={1}):pass', 'e'), ('ArgAnn', 'def g(p:{0},*r:{1},**s:{2})->{3}:pass', 'e'),
    ('ArgStarAnn', 'def g(*r:*{0}):pass', 'e'),
    ('Match', 'match {0}:\n case 1:pass', 'e'), ('MatchTup', 'match {0},{1}:\n case _:pass', 'e'),
    ('MatchGuard', 'match x:\n case y if {0}:pass', 'e'),
    ('Global', 'print({0})', 'e'), ('Print2', 'print >>{0},{1}', 'e'), ('Exec2', 'exec {0} in {1}', 'e'),
    ('Backtick', 'x=`{0}`', 'e'), ('TypeAlias', 'type T={0}', 'e'), ('TypeVarBound', 'def g[T:{0}]():pass', 'e'),
    ('TypeVarDefault', 'def g[T={0}]():pass', 'e'),
]
SPECIAL_CHILDREN = [
    ('StarredBare', '*a'), ('YieldBare', '(yield)'), ('NegInt', '-1'), ('NegFloat', '-1.5'), ('NegComplex', '-2j'),
    ('NotNot', 'not not a'), ('NegNeg', '- -a'), ('PowNeg', '2**-1'), ('NegPow', '(-2)**2'), ('AttrInt', '(1).real'),
    ('AttrFloat', '1.5.real'), ('EmptyTuple', '()'), ('EmptyDict', '{}'), ('EmptyList', '[]'),
    ('LambdaArgs', 'lambda x,/,y,*,z:x'), ('LambdaStar', 'lambda*a,**k:a'), ('StrConcat', "'a' 'b'"),
    ('FStrNested', "f'{a!r:{b}}'"), ('FStrQuotes', "f'{a[\"k\"]}'"), ('FStrLambda', "f'{(lambda:1)()}'"),
    ('FStrDict', "f'{ {1:2}[1]}'"), ('FStrBrace', "f'{{{a}}}'"), ('FStrBackslash', "f'\\n{a}\\\\'"),
    ('FStrFStr', "f'{f\"{a}\"}'"), ('BytesEsc', "b'\\x00\\xff\\n\\''"), ('StrEsc', "'\\n\\t\\\\\\'\"\\x00\\x7f\\u1234'"),
    ('StrTriple', "'''a\nb'''"), ('RawStr', "r'\\d'"), ('UStr', "u'u'"), ('IntHex', '0xff'), ('IntOct', '0o17'),
    ('IntBin', '0b101'), ('IntUnderscore', '1_000'), ('FloatDot', '.5'), ('FloatTrail', '5.'), ('LongExp', '1e22'),
    ('Float16', '1e16'), ('FloatPrec', '0.1'), ('FloatMax', '1.7976931348623157e308'), ('FloatDenorm', '5e-324'),
    ('ComplexInf', '1e999j'), ('ComplexZero', '0j'), ('IntSpaceDot', '1 .real'), ('CompareNested', '(a<b)<c'),
    ('IfExpNested', 'a if b else c if d else e'), ('LambdaIf', 'lambda:a if b else c'), ('TupleNested', '((a,b),c)'),
    ('WalrusBare', '(w:=a)'), ('AwaitCall', 'await a()'), ('SubscriptSlices', 'a[::,1:2]'), ('CallKwOnly', 'a(k=b)'),
    ('CurlyIfExp', '{1:2} if a else b'), ('SetIfExp', '{a} if b else c'), ('CurlySubIfExp', '{1:2}[1] if a else b'), ('CurlyBoolOp', '{a} and b'),
    ('DictCompIf', '{k:v for k,v in a if v if k}'), ('GenInCall', 'a(x for x in b)'), ('Long', '10L'), ('Oct2', '0777'),
]


def children():
    out = list(ATOMS) + list(SPECIAL_CHILDREN)
    names = ['a', 'b', 'c', 'd', 'e']
    for tag, t, ctx in EXPR_TEMPLATES:
        try:
            out.append((tag, t.format(*names)))
        except IndexError:
            pass
    return out


def wrap(text, ctx):
    if 'await' in text or 'async' in text or ctx == 'a':
        if 'yield from' in text:
            head = 'def f():\n'
        else:
            head = 'async def f():\n'
    elif 'yield' in text or ctx == 'g':
        head = 'def f():\n'
    else:
        return text + '\n'
    return head + ''.join(' ' + line + '\n' for line in text.split('\n'))


def fill(template, slot, child, paren=True):
    args = []
    n = 0
    names = ['a', 'b', 'c', 'd', 'e']
    for i in range(6):
        if '{%d}' % i in template:
            n = i + 1
    for i in range(n):
        if i == slot:
            if paren and not child.startswith('*'):
                args.append('(' + child + ')')
            else:
                args.append(child)
        else:
            args.append(names[i])
    return template.format(*args), n


def nslots(template):
    n = 0
    for i in range(6):
        if '{%d}' % i in template:
            n = i + 1
    return n


def triples():
    """All (parent template, slot, child) combinations. ~ (75+60 templates) x ~2.2 slots x ~150 children."""
    kids = children()
    for group, templates in (('E', EXPR_TEMPLATES), ('S', STMT_TEMPLATES)):
        for tag, t, ctx in templates:
            for slot in range(nslots(t)):
                for ctag, c in kids:
                    text, _ = fill(t, slot, c)
                    if group == 'E':
                        text = 'x=' + text if not text.startswith('(yield') else text
                    yield {'shape': '%s.%d<-%s' % (tag, slot, ctag), 'src': wrap(text, ctx)}
                    if ctag in ('Tuple', 'Yield', 'YieldFrom', 'Lambda', 'IfExp', 'Walrus', 'GenExp', 'StarredBare',
                                'Await', 'Not', 'USub', 'NegInt') and not c.startswith('*'):
                        # also the unparenthesised spelling, where the grammar allows it
                        c2 = c[1:-1] if (c.startswith('(') and c.endswith(')') and ctag in ('Tuple', 'Yield', 'YieldFrom', 'Walrus')) else c
                        text2, _ = fill(t, slot, c2, paren=False)
                        if group == 'E':
                            text2 = 'x=' + text2
                        yield {'shape': '%s.%d<~%s' % (tag, slot, ctag), 'src': wrap(text2, ctx)}


def random_expr(r, depth, kids=None):
    """Random nested expression text (every child parenthesised)."""
    if kids is None:
        kids = ATOMS + SPECIAL_CHILDREN
    if depth <= 0 or r.random() < 0.15:
        return r.choice(kids)[1]
    tag, t, ctx = r.choice(EXPR_TEMPLATES)
    n = nslots(t)
    args = []
    for i in range(n):
        c = random_expr(r, depth - 1 - r.randrange(2), kids)
        if c.startswith('*'):
            c = 'a'
        args.append('(' + c + ')')
    if tag in ('Pow', 'LShift', 'Mult') and n == 2:
        # keep the interpreter's own compile-time folding cheap (2.7's peephole has no size limit)
        args[1] = r.choice(['(2)', '(a)', '(-1)', '(0.5)'])
    return t.format(*args)


def random_cases(seed, n, depth=5):
    for i in range(n):
        r = common.rng(seed, 'exprgen', i)
        d = 2 + r.randrange(depth - 1)
        e = random_expr(r, d)
        stag, st, sctx = r.choice(STMT_TEMPLATES[:40])
        k = nslots(st)
        args = ['(' + (e if j == 0 else random_expr(r, 1)) + ')' for j in range(k)]
        try:
            text = st.format(*args)
        except Exception:
            text = 'x=' + e
        ctx = sctx
        yield {'shape': 'rand.d%d' % d, 'src': wrap(text, ctx)}


# ---- token adjacency grid -----------------------------------------------------------------------------------
KEYWORD_CONTEXTS = [
    '{0} if {1} else {2}', '{0} and {1}', '{0} or {1}', 'not {0}', '{0} in {1}', '{0} not in {1}', '{0} is {1}',
    '{0} is not {1}', 'lambda:{0}', '[{0} for x in {1} if {2}]', '[{0}for x in{1}]',
]
STMT_KEYWORD_CONTEXTS = [
    'x={E}', 'return {E}', 'yield {E}', 'assert {E},{E}', 'raise {E} from {E}', 'del x[{E}]', 'if {E}:pass',
    'while {E}:pass', 'for x in {E}:pass', 'with {E} as x:pass', 'import a as b;{E}', 'from . import a;{E}',
    'from .a import b;{E}', 'from .. import (a,b);{E}', 'global g;{E}', 'print({E})', 'await {E}',
    'match {E}:\n case {P}:pass', 'match x:\n case {P} if {E}:pass', 'try:pass\nexcept {E}:pass', 'x:{E}={E}',
    'x={E};y={E}', 'class C({E}):pass', '@{E}\ndef g():pass', 'async for x in {E}:pass', 'elif_=1\nif {E}:pass\nelse:{E}',
]
ADJ_OPERANDS = ['1', '1.5', '1e5', '1j', '0x1f', '0b1', '0o7', '1.', '.5', "'s'", "b's'", "f'{a}'", 'a', 'None', 'True',
                '...', '(a,)', '[a]', '{a}', '{a:b}', '-1', 'not a', 'a.b', 'a[b]', 'a()', '1_0', '1E5', '0xfor',
                '1if 1else 2', "''", '""', "'\"'", "'\\''", 'a if b else c', 'lambda:a', '*a,b']
PATTERNS = ['1', '-1', '1+2j', '-1.5-2j', "'s'", "b'b'", 'None', 'True', 'x', '_', 'a.b', '[x,*y]', '(x,)', '{1:x,**r}',
            'C(x,k=y)', 'x|y' .replace('x|y', '1|2'), '1 as x', '[1,2]|(3,4)', 'C()', '{}', '[]', "'a' 'b'", '(1|2) as z',
            '[*_]', '*a,b', 'x,', 'str()|None']


def adjacency_cases():
    for t in KEYWORD_CONTEXTS:
        n = nslots(t)
        for a in ADJ_OPERANDS:
            for slot in range(n):
                args = [('(' + a + ')' if ' ' in a or '*' in a else a) if i == slot else 'z' for i in range(n)]
                for space in (t, t.replace(' if ', ' if(').replace(' else ', ')else ') if 'if' in t else None):
                    if space is None:
                        continue
                    try:
                        yield {'shape': 'adj.kw', 'src': 'x=' + space.format(*args) + '\n'}
                    except Exception:
                        pass
    for st in STMT_KEYWORD_CONTEXTS:
        for a in ADJ_OPERANDS:
            for p in (PATTERNS if '{P}' in st else ['_']):
                text = st.replace('{E}', a).replace('{P}', p)
                ctx = 'a' if ('await' in text or 'async' in text) else ('g' if ('yield' in text or 'return' in text) else 'e')
                yield {'shape': 'adj.stmt', 'src': wrap(text, ctx)}
