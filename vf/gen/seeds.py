"""Hand-written seed programs: regression seeds for every mechanism found so far, plus rare shapes.

Each entry: (tag, source text). All are compilable on 3.12 unless tagged py2/invalid.
"""

SEEDS = [
    # --- defects found while reading / by the monitors (regression seeds) ---
    ('d1_debug_nonname', "x=1\nif x is True:\n    print('a')\nprint('b')\n"),
    ('d2_debug_else', "if __debug__:\n    print('A')\nelse:\n    print('B')\n"),
    ('d2_debug_elif', "y=0\nif __debug__ is True:\n    print('A')\nelif y:\n    print('C')\nelse:\n    print('B')\n"),
    ('d3_doc_name', '"""doc"""\nprint(__doc__)\n'),
    ('doc_printed_with_hoisting', '"""the module docstring"""\nfirst = "a repeated literal value"\nsecond = "a repeated literal value"\nthird = "a repeated literal value"\ndef show():\n    """function docstring"""\n    return show.__doc__, "a repeated literal value"\nclass Documented:\n    """class docstring"""\n    attribute = "a repeated literal value"\nprint(__doc__, show(), Documented.__doc__, first, second, third)\n'),
    ('d4_dataclass_nested', "from dataclasses import dataclass\n@dataclass\nclass A:\n    if True:\n        x: int = 1\nprint(A(2))\n"),
    ('d5_object_shadowed', "class object:\n    pass\nclass A(object):\n    pass\nprint(A.__mro__[1].__module__)\n"),
    ('d6_walrus_comp', "def f(d):\n    if any((found := i) > 1 for i in d):\n        return found\nprint(f([1, 2, 3]))\n"),
    ('d7_fstring_bytes', "x=1\nprint(f\"{b'\\xc8'}\")\nprint(f\"{b'a\\\\b'}\")\n"),
    ('d7_fstring_nul', "print(f\"{'a\\x00b'}\")\n"),
    ('d8_bigint', "x = 0x" + "f" * 4000 + "\nprint(x.bit_length())\n"),
    ('d9_with_tuple', "class C:\n    def __enter__(s): return s\n    def __exit__(s, *a): return True\ntry:\n    with ((C(), C())):\n        pass\nexcept Exception as e:\n    print(type(e).__name__)\n"),
    ('d10_taint_hoist', "def f():\n    return 'hello world', 'hello world', 'hello world', 'hello world'\nprint(sorted(k for k in globals() if not k.startswith('__')))\nprint(f())\n"),
    ('d12_cr_shebang', "#!/usr/bin/python\rprint(1)\r"),
    ('d14_float_hoist', "a=1.0+x if 0 else 1.0\nb=[1.0,1.0,1.0,1.0,0.0,0.0,0.0,0.0]\nprint(a,b)\n"),
    ('d15_posonly_kwargs', "def f(name, /, **kw):\n    return kw\nprint(f(1, name=2))\n"),
    ('d16_match_guard_tuple', "match 1:\n    case y if (y, 2):\n        print(y)\n"),
    ('d17_match_guard_yield', "def g():\n    match 1:\n        case y if (yield y):\n            print(y)\nprint(list(g()))\n"),
    # --- rare but valid shapes ---
    ('walrus_comp_inner', "def f(d):\n    return [y for x in d if (y := x * 2) > 2]\nprint(f([1, 2, 3]))\n"),
    ('walrus_nested_comp', "def f(d):\n    r = [[(z := a + b) for a in d] for b in d]\n    return r, z\nprint(f([1, 2]))\n"),
    ('class_fallback', "x = 'global'\ndef f():\n    x = 'local'\n    class C:\n        y = x\n        x = x\n    return C.y, C.x\nprint(f())\n"),
    ('global_multi_names', "def setup():\n    global first_setting, second_setting, third_setting\n    first_setting = 1\n    second_setting = None\n    third_setting = None\ndef reader():\n    return first_setting, second_setting, third_setting\nsetup()\nprint(reader())\n"),
    ('global_multi_names_2', "def configure():\n    global alpha_value, beta_value\n    alpha_value = 'a'\n    beta_value = 'b'\ndef again():\n    global beta_value, gamma_value, alpha_value\n    gamma_value = alpha_value + beta_value\nconfigure()\nagain()\nprint(alpha_value, beta_value, gamma_value)\n"),
    ('nonlocal_multi_names', "def outer():\n    left_total = 0\n    right_total = 0\n    middle_total = 0\n    def bump():\n        nonlocal left_total, right_total, middle_total\n        left_total += 1\n        right_total += 2\n        middle_total += 3\n    bump()\n    return left_total, right_total, middle_total\nprint(outer())\n"),
    ('nonlocal_chain', "def a():\n    v = 0\n    def b():\n        nonlocal v\n        v += 1\n        def c():\n            nonlocal v\n            v += 10\n            return v\n        return c()\n    return b()\nprint(a())\n"),
    ('global_in_nested', "g = 1\ndef a():\n    def b():\n        global g\n        g += 1\n    b()\n    return g\nprint(a())\n"),
    ('except_star', "try:\n    raise ExceptionGroup('g', [ValueError(1)])\nexcept* ValueError as e:\n    print(type(e).__name__)\n"),
    ('type_params', "def f[T](x: T) -> T:\n    return x\nclass C[T]:\n    def m(self, v: T) -> T:\n        return v\ntype A[T] = list[T]\nprint(f(1), C().m(2))\n"),
    ('async_all', "import asyncio\nasync def agen():\n    for i in range(3):\n        yield i\nasync def main():\n    r = [i async for i in agen()]\n    async with asyncio.Lock() as l:\n        pass\n    async for i in agen():\n        r.append(i)\n    return r\nprint(asyncio.run(main()))\n"),
    ('lambda_kw', "f = lambda first, second=2, *rest, key=None, **others: (first, second, rest, key, others)\nprint(f(1, second=3, key=4, z=5))\n"),
    ('decorators', "def deco(arg):\n    def wrap(fn):\n        fn.tag = arg\n        return fn\n    return wrap\n@deco('abc')\n@deco(arg='abc')\ndef target():\n    pass\nprint(target.tag)\n"),
    ('slots', "class P:\n    __slots__ = ('alpha', 'beta', 'alpha2')\n    def __init__(self):\n        self.alpha = 'alpha'\n        self.beta = 'beta'\nprint(P().alpha, P.__slots__)\n"),
    ('future_doc', '"""module doc"""\nfrom __future__ import annotations\nimport sys\nX = "repeated string"\nY = "repeated string"\nZ = "repeated string"\nprint(__doc__, X, Y, Z)\n'),
    ('match_all', "def m(v):\n    match v:\n        case 0 | 1:\n            return 'small'\n        case [a, b, *rest]:\n            return ('seq', a, b, rest)\n        case {'k': val, **others}:\n            return ('map', val, others)\n        case str() as s if len(s) > 2:\n            return ('str', s)\n        case complex(real=r, imag=i):\n            return ('cx', r, i)\n        case -1.5 | 2 + 3j:\n            return 'num'\n        case None:\n            return 'none'\n        case _:\n            return 'other'\nprint([m(x) for x in (0, [1, 2, 3], {'k': 1, 'j': 2}, 'abcd', 1j, -1.5, None, object)])\n"),
    ('star_import', "from os.path import *\nprint(basename('/a/b'))\n"),
    ('nested_fstring', "d = {'k': 'v'}\nw = 7\nprint(f\"{d['k']!r:>{w}} {f'{w:{w}}'} {{lit}} {w=}\")\n"),
    ('try_finally_return', "def f():\n    try:\n        return None\n    finally:\n        print('fin')\nprint(f())\n"),
    ('return_none_middle', "def f(x):\n    if x:\n        return None\n    print('after')\n    return None\nprint(f(0), f(1))\n"),
    ('empty_suites', "def f():\n    pass\nclass C:\n    pass\nfor i in range(2):\n    pass\nelse:\n    pass\nwhile False:\n    pass\ntry:\n    pass\nexcept Exception:\n    pass\nelse:\n    pass\nfinally:\n    pass\nwith open(__file__ if '__file__' in dir() else '/dev/null') as fh:\n    pass\nprint(f(), C)\n"),
    ('kwonly_and_posonly', "def f(a, b, /, c, d=4, *args, e, f=6, **kwargs):\n    return a, b, c, d, args, e, f, kwargs\nprint(f(1, 2, 3, e=5), f(1, 2, c=3, d=4, e=5, g=7))\n"),
    ('builtin_shadow', "def f(list, len=len):\n    ValueError = KeyError\n    try:\n        raise ValueError()\n    except KeyError:\n        return len(list)\nprint(f([1, 2]))\n"),
    ('raise_forms', "def t(k):\n    try:\n        if k == 0: raise ValueError()\n        if k == 1: raise ValueError\n        if k == 2: raise ValueError('m')\n        if k == 3: raise TypeError() from KeyError()\n        if k == 4: raise OSError()\n    except Exception as e:\n        return type(e).__name__, e.args, type(e.__cause__).__name__\nprint([t(i) for i in range(5)])\n"),
    ('big_shift', "x = 1 << 70\ny = 2 ** 10\nz = 10 * 1000 * 1000\nprint(x, y, z)\n"),
    ('name_pool_names', "def f(A, B, C, _A, _B):\n    D = A + B + C + _A + _B\n    return D\nA = 1\n_A = 2\nprint(f(1, 2, 3, 4, 5), A, _A)\n"),
    ('all_list', "__all__ = ['public_one', 'public_two']\n__all__ += ['public_three']\ndef public_one(): return 1\ndef public_two(): return 2\ndef public_three(): return 3\ndef private_four(): return 4\nprint(public_one() + private_four())\n"),
    ('del_local', "def f():\n    tmp = [1, 2, 3]\n    total = sum(tmp)\n    del tmp\n    try:\n        tmp\n    except NameError as e:\n        return total, type(e).__name__\nprint(f())\n"),
    ('comp_class_body', "class C:\n    xs = [1, 2, 3]\n    ys = [x * 2 for x in xs]\n    zs = list(y for y in ys)\nprint(C.ys, C.zs)\n"),
    ('mangled', "class K:\n    def __init__(self):\n        self.__priv = 1\n    def get(self):\n        __loc = self.__priv\n        return __loc\nprint(K().get(), sorted(vars(K())) if False else K()._K__priv)\n"),
    ('generator_return', "def g():\n    x = yield 1\n    return None\ndef h():\n    r = yield from g()\n    yield r\nprint(list(h()))\n"),
    ('chained_compare', "a, b, c = 1, 2, 3\nprint(a < b < c, a < b > c, (a < b) < c, a in [1] in [[1]], not a == b)\n"),
    ('unary_pow', "print(-2 ** 2, (-2) ** 2, 2 ** -1, -(2 ** 2), 2 ** 3 ** 2, (2 ** 3) ** 2, - - 1, +-+1, ~-1, not not 1)\n"),
    ('numeric_attr', "print((1).real, 1.5.real, 1 .imag, 1e3.real, 0x1.real if False else 1, 1j.imag)\n"),
    ('semicolons', "import sys; x = 1; y = 2\nif x: y += 1; x -= 1\nprint(x, y)\n"),
    ('dict_set_star', "a = [1, 2]; d = {'x': 1}\nprint([*a, *a], {*a}, {**d, 'y': 2}, (*a,), [*a][0])\n"),
]

# shapes whose printing depends on the interpreter version: always run on every interpreter (C02, C08)
VERSION_SENSITIVE = [
    ('vs_subscript_starred', "x = a[(*b, c)]\ny = a[(*b,)]\na[(*b, c)] = 1\ndel a[(*b, c)]\n"),
    ('vs_return_starred', "def f():\n    return (*a, b)\ndef g():\n    return (1, *a)\n"),
    ('vs_yield_starred', "def f():\n    yield (*a, b)\n    x = yield (*a, b)\n"),
    ('vs_augassign_starred', "x += (*a, b)\nx.y *= (1, *a)\n"),
    ('vs_for_starred', "for x in (*a, b):\n    pass\nfor y, *z in (*a,):\n    pass\n"),
    ('vs_assign_starred', "x = (*a, b)\nx = y = (*a,)\nx: int = (*a, b)\n"),
    ('vs_walrus_positions', "if (n := len(a)) > 1:\n    pass\nx = [y := f(a), y ** 2]\nf(z := 1)\nf(k=(z := 1))\nwhile (c := f()):\n    pass\nprint(f'{(w := 5)}')\nx = a[(i := 0)]\nx = {(k := 1): (v := 2)}\n"),
    ('vs_posonly', "def f(a, b=1, /, c=2, *, d=3):\n    pass\nx = lambda a, /, b: a\n"),
    ('vs_fstring_nesting', "x = f'{a!r:>{w}} {b:{c}.{d}} {e=} {f\"{g}\"}'\ny = f'{ {1: 2}[1]} {(lambda: 1)()} {a if b else c}'\n"),
    ('vs_fstring_pep701', "x = f'{a['k']} {f'{b}'} {'\\n'.join(c)}'\n"),
    ('vs_match', "match a:\n    case [1, *r] | (2, *r) if r:\n        pass\n    case {'k': v, **m}:\n        pass\n    case C(x, k=1) as z:\n        pass\n    case -1 | 1 + 2j | None | 'a' 'b':\n        pass\n"),
    ('vs_except_star', "try:\n    pass\nexcept* (A, B) as e:\n    pass\n"),
    ('vs_type_params', "def f[T: int, *Ts, **P](a: T) -> T:\n    pass\nclass C[T]:\n    pass\ntype A[T] = list[T]\n"),
    ('vs_type_param_defaults', "def f[T = int, *Ts = *tuple[int], **P = [int]]():\n    pass\n"),
    ('vs_decorators', "@a.b[c](d)\ndef f():\n    pass\n@(lambda f: f)\ndef g():\n    pass\n@x if y else z\nclass C:\n    pass\n"),
    ('vs_with_items', "with (a as b, c as d):\n    pass\nwith (a, b):\n    pass\nwith ((a, b)) as c:\n    pass\nwith (a):\n    pass\n"),
    ('vs_dict_set_unpack', "x = {**a, 'k': 1, **b}\ny = {*a, 1, *b}\nz = [*a, *b]\nf(*a, *b, **c, **d)\n"),
    ('vs_async_comp', "async def f():\n    x = [i async for i in a]\n    y = [await i for i in a]\n    z = {i: j async for i, j in a if await i}\n    return (i async for i in a)\n"),
    ('vs_numbers', "x = [1_000, 0x_ff, 1e1_0, 0b1_0, 1_0j, 0o1_7, 1.5e300, 1e-300, 5e-324, 1e22, 1e21, 123456789012345678901234567890]\n"),
    ('vs_annotations', "x: int\n(y): int = 1\na.b: int = 2\nc[0]: 'S' = 3\ndef f(a: int = 1, *b: int, c: int = 2, **d: int) -> int:\n    e: int = 4\n"),
    ('vs_print_exec_py2', "print >>f, 'a', 'b',\nexec 'x' in g, l\nprint\n"),
    ('vs_py2_misc', "x = `a`\ny = 10L\nz = 0777\nraise E, 'v', tb\ntry:\n    pass\nexcept E, e:\n    pass\ndef f(a, (b, c)):\n    pass\nx = a <> b\n"),
    ('vs_global_nonlocal', "def f():\n    x = 1\n    def g():\n        nonlocal x\n        global y, z\n        x = y = z = 2\n"),
    ('vs_lambda_forms', "f = lambda: (yield)\ng = lambda *a, k=1, **kw: a\nh = lambda x=(lambda: 1): x\n"),
    ('vs_slices', "x = a[1:2, ::3, ...]\ny = a[::]\nz = a[b:c:d, e]\nw = a[:, 1]\n"),
    ('vs_strings', "x = ['\\N{BULLET}', '\\ud800', b'\\x00\\xff', r'\\d', u'u', '\\x7f', 'a' \"b\", '\\0', '\\'']\n"),
]

PY2_SEEDS = [
    ('py2_print', "print 'a', 'b'\nprint >>None, 'x'\nprint\n"),
    ('py2_exec', "exec 'x=1' in {}\nexec 'y=2'\n"),
    ('py2_backtick', "x = `1`\nprint x\n"),
    ('py2_long', "x = 10L\ny = 0777\nprint x, y, 1/2\n"),
    ('py2_tuple_params', "def f(a, (b, c)):\n    return a + b + c\nprint f(1, (2, 3))\n"),
    ('py2_except', "try:\n    raise ValueError, 'x'\nexcept ValueError, e:\n    print e\n"),
    ('py2_unicode', "x = u'abc' + 'def' + ur'\\d' + b'b'\nprint repr(x)\n"),
]


def all_seeds():
    from vf.gen import idioms
    return list(SEEDS) + [('idiom_' + t, src.lstrip('\n')) for t, src in idioms.IDIOMS]
