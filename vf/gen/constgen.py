"""Hostile constants: ints, floats, complex, strings, bytes - as source text."""
import struct

from vf import common

INT_TEXTS = ['0', '1', '-1', '7', '255', '256', '65535', '4294967295', '4294967296', str(2 ** 63), str(2 ** 64 - 1), str(-2 ** 63),
             '0x0', '0xdeadbeef', '0o777', '0b1010', '1_000_000', '0xffff_ffff', str(10 ** 30), str(10 ** 100),
             '0x' + 'f' * 64, '0' * 1 + '', '00' if False else '0']
FLOAT_TEXTS = ['0.0', '-0.0', '1.0', '1.', '.1', '0.1', '1e0', '1e1', '1e5', '1e15', '1e16', '1e17', '1e21', '1e22', '1e23', '1e-4', '1e-5', '1e-6',
               '1e-7', '1E+5', '1.5e300', '1e308', '1e309', '1e999', '-1e999', '5e-324', '2.2250738585072014e-308', '4.9e-324',
               '1.7976931348623157e308', '0.30000000000000004', '123456789.123456789', '1_0.0_1', '1e-400', '100.0', '1000000.0',
               '10000000000000000.0', '1e+16', '0.0001', '0.00001', '3.14159', '2.5e-5', '9007199254740993.0', '1.0000000000000002']
COMPLEX_TEXTS = ['0j', '1j', '-1j', '1.5j', '1e5j', '1e999j', '0.0j', '1_0j', '.5j', '5.j', '1e-7j', '1+2j', '1-2j', '-1-2j', '1.5+0j', '-0j',
                 '(1+2j)', '-(1+2j)', '1e16j', '1e22j', '100j', '10000000000000000j']
STR_PIECES = ['a', 'b', ' ', "'", '"', '\\', '\n', '\r', '\t', '\0', '\x07', '\x1b', '\x7f', '\x80', '\xa0', '\xff', '{', '}', '{{', '}}', '%', '#', 'ሴ',
              ' ', ' ', '﻿', '\U0001F600', '‮', '\ud800', '\udfff', "'''", '"""', '\\n', '\\N{DASH}', '\\x41', 'é', '日本', '\x00\x00']


def _floats(r, n):
    out = []
    for _ in range(n):
        bits = r.getrandbits(64)
        f = struct.unpack('<d', struct.pack('<Q', bits))[0]
        if f != f:
            continue
        out.append(repr(f) if abs(f) != float('inf') else ('1e999' if f > 0 else '-1e999'))
        if r.random() < 0.3:
            out.append('%.17g' % f if abs(f) != float('inf') else '1e999')
        if r.random() < 0.2:
            # round numbers around the repr format boundaries
            e = r.randrange(-30, 40)
            m = r.choice(['1', '1.5', '9.9', '2', '1.25'])
            out.append('%se%d' % (m, e))
    return out


def _string(r):
    k = r.randrange(0, 7)
    return ''.join(r.choice(STR_PIECES) for _ in range(k))


def str_literal(s, r=None):
    """Source text for str value s (python repr, surrogate-safe ascii)."""
    t = ascii(s)
    return t


def bytes_literal(b):
    return repr(b)


def const_cases(seed, n):
    r = common.rng(seed, 'constgen')
    texts = []
    texts += INT_TEXTS + FLOAT_TEXTS + COMPLEX_TEXTS
    texts += _floats(r, n // 4)
    for _ in range(n // 4):
        texts.append(str(r.getrandbits(r.choice([8, 16, 31, 32, 63, 64, 65, 128, 200]))))
        texts.append(hex(r.getrandbits(r.choice([8, 32, 64, 128]))))
    for _ in range(n // 4):
        s = _string(r)
        texts.append(str_literal(s))
        if '\ud800' not in s and '\udfff' not in s and r.random() < 0.5:
            q = r.choice(['"', "'"])
            if q not in s and '\\' not in s and '\n' not in s and '\r' not in s and '\0' not in s:
                texts.append(q + s + q)
            elif '\\' not in s and '\0' not in s and '\r' not in s and not s.endswith(q) and (q * 3) not in s:
                texts.append(q * 3 + s + q * 3)
        bs = bytes(r.getrandbits(8) for _ in range(r.randrange(0, 6)))
        texts.append(bytes_literal(bs))
        if r.random() < 0.3:
            texts.append('f' + ascii(s.replace('{', '{{').replace('}', '}}') + '{a}').replace('\\\\N', '\\N'))
    contexts = ['x={0}\n', 'x=-{0}\n', 'x=[{0},{0}]\n', 'x={0}.real\n' if False else 'x=({0}).real\n', 'x={{{0}:{0}}}\n', 'f({0})\n',
                'x=a[{0}]\n', 'x={0} if {0} else {0}\n', 'x=a.b+{0}\n', 'def f(p={0}):pass\n', 'x={0}**{0}\n', 'x=not {0}\n',
                'x={0} is {0}\n', 'assert {0},{0}\n', "x=f'{{{0}}}'\n", "x=f'{{a:{{{0}}}}}'\n", 'x=~{0}\n', 'x=+{0}\n', 'x=- -{0}\n', 'x=2**-{0}\n',
                '{0}\n', 'x={0}\n{0}\n']
    out = []
    for i, t in enumerate(texts[:n]):
        c = contexts[0] if r.random() < 0.5 else r.choice(contexts)
        if '**' in c and len(t) > 3:
            c = contexts[0]
        try:
            src = c.format(t)
        except Exception:
            src = 'x=' + t + '\n'
        out.append({'shape': 'const', 'src': src})
    return out
