"""Union workload: every generator + corpus + seeds, as (shape tag, source) cases."""
import base64

from vf import common
from vf.gen import exprgen, constgen, modgen, scopegen, seeds, triggergen


def sources(tier, seed, n_mod=None, n_expr=None, corpus=True):
    """Yield dicts {'shape':..., 'src': text} or {'shape':..., 'src_b64':...}."""
    quick = tier == 'quick'
    n_mod = n_mod if n_mod is not None else (250 if quick else 4000)
    n_expr = n_expr if n_expr is not None else (1200 if quick else 12000)
    for tag, s in seeds.all_seeds() + seeds.VERSION_SENSITIVE + seeds.PY2_SEEDS:
        yield {'shape': 'seed:' + tag, 'src': s}
    for c in deep_sources():
        yield c
    r = common.rng(seed, 'union')
    trig = list(triggergen.cases())
    r.shuffle(trig)
    for c in trig[:(250 if quick else len(trig))]:
        yield {'shape': 'trigger', 'src': c['src']}
    for c in scopegen.enumerate_cases(max_stmt_depth=2, expr_depth=(0, 1), sample=(400 if quick else 8000), seed=seed + 11):
        yield {'shape': 'scope', 'src': c['src']}
    for c in scopegen.sampled_cases(seed + 11, 150 if quick else 3000):
        yield {'shape': 'scope', 'src': c['src']}
    tri = list(exprgen.triples())
    r.shuffle(tri)
    for c in tri[:n_expr]:
        yield {'shape': 'triple', 'src': c['src']}
    adj = list(exprgen.adjacency_cases())
    r.shuffle(adj)
    for c in adj[:n_expr // 3]:
        yield {'shape': 'adjacency', 'src': c['src']}
    for c in exprgen.random_cases(seed, n_expr // 3, depth=6):
        yield {'shape': 'randexpr', 'src': c['src']}
    for c in constgen.const_cases(seed, n_expr // 3):
        yield {'shape': 'const', 'src': c['src']}
    for i in range(n_mod):
        src, tags = modgen.generate(seed, i, guarded=(i % 3 == 0), size=10 + (i % 4) * 6)
        yield {'shape': 'modgen', 'src': src, 'tags': tags}
    if corpus:
        files = list(common.corpus_files('real')) + list(common.corpus_files('tests312'))
        r.shuffle(files)
        for f in (files[:25] if quick else files):
            yield {'shape': 'corpus', 'file': f, 'src_b64': base64.b64encode(common.read_text(f)).decode('ascii')}


def invalid_sources(seed, n):
    """Sources that do not parse: truncations, token mutations, bad indentation, NUL bytes, bad cookies."""
    r = common.rng(seed, 'invalid')
    base = [s for _, s in seeds.all_seeds()]
    for i in range(n):
        s = r.choice(base)
        k = r.randrange(8)
        if k == 0 and len(s) > 5:
            s = s[:r.randrange(1, len(s))] + '('
        elif k == 1:
            pos = r.randrange(len(s))
            s = s[:pos] + r.choice(['(', ')', ']', '{', '$', '?', '`', '!', ' = = ', ' def ', ' lambda ', '"""', "'"]) + s[pos:]
        elif k == 2:
            lines = s.split('\n')
            j = r.randrange(len(lines))
            lines[j] = ' ' * r.randrange(1, 4) + lines[j]
            s = '\n'.join(lines)
        elif k == 3:
            s = s.replace(':', '', 1) if ':' in s else s + ')'
        elif k == 4:
            s = s + '\n\tx = 1\n        y = 2\n  z = 3\n'
        elif k == 5:
            s = 'def f(:\n' + s
        elif k == 6:
            s = s + '\nreturn = 1\n'
        else:
            s = s + '\nx = 1 +\n'
        yield {'shape': 'invalid', 'src': s}
    for t in ['\ufeffx = "a\ufeffb"\nprint(x)\n', '\ufeff# comment\ny = 1\n', 'x = 1\n\ufeffy = 2\n']:
        yield {'shape': 'invalid-text-bom', 'src': t}
    for b in [b'x = 1\x00\n', b'# coding: no-such-codec\nx = 1\n', b'\xff\xfex = 1\n', b'x = "\xc8"\n', b'# coding: ascii\nx = "\xc3\xa9"\n',
              b'\xef\xbb\xbf# coding: latin-1\nx = 1\n', b'def f():\n\treturn 1\n        return 2\n']:
        yield {'shape': 'invalid-bytes', 'src_b64': base64.b64encode(b).decode('ascii')}


def deep_sources():
    """long operator / call / elif chains: compilable (the interpreter copes with a few thousand levels), deep for a recursive tree walker"""
    for n in (40, 120, 400, 1200):
        yield {'shape': 'deep.add_strings', 'src': 'x = ' + ' + '.join("'s%d'" % i for i in range(n)) + '\n'}
        yield {'shape': 'deep.add_names', 'src': 'a = 1\nx = ' + ' + '.join(['a'] * n) + '\n'}
        yield {'shape': 'deep.call_chain', 'src': 'class B:\n    def f(self):\n        return self\nx = B()' + '.f()' * n + '\n'}
        yield {'shape': 'deep.elif_pass', 'src': 'v = 0\nif v == -1:\n    pass\n' + ''.join('elif v == %d:\n    pass\n' % i for i in range(n))}
        yield {'shape': 'deep.elif_assign', 'src': 'v = 0\nif v == -1:\n    w = 1\n' + ''.join('elif v == %d:\n    w = %d\n' % (i, i) for i in range(n))}
        yield {'shape': 'deep.nested_lists', 'src': 'x = ' + '[' * min(n, 90) + '1' + ']' * min(n, 90) + '\n'}
        yield {'shape': 'deep.subscript_chain', 'src': 'x = {}\ny = x' + '.get(1, x)' * n + '\n'}
