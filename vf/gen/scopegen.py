"""Scope-shape enumeration for the renaming properties (C03 C04 C06 C09 C10).

A case is a nest of scopes  S0{ S1{ S2 ... } }  (S0 = module) with one *subject* name `subject` bound at level b by binding
form F and referenced at level r >= b at position R, surrounded by decoy bindings whose names collide with what the renamer
hands out (A, B, _A), with builtins, and with same-named bindings in sibling / ancestor scopes.
Statement scopes: def, async def, class.  Expression scopes: lambda, listcomp, setcomp, dictcomp, genexpr (only as a suffix).
compile() is the final filter (done by the caller); shapes are tagged so coverage can be counted per class.
"""
import itertools

from vf import common

STMT_SCOPES = ['def', 'async', 'class']
EXPR_SCOPES = ['lambda', 'listcomp', 'genexpr', 'dictcomp', 'setcomp']
BINDERS = ['assign', 'augassign', 'annassign', 'annonly', 'for', 'with', 'except', 'import', 'importas', 'fromimport', 'def', 'class', 'param', 'kwonly',
           'posonly', 'vararg', 'kwarg', 'walrus', 'match', 'matchstar', 'matchrest', 'del', 'global', 'nonlocal', 'tuple', 'starred', 'comptarget', 'default_self',
           'walrus_comp', 'walrus_nested_comp', 'walrus_comp_cond', 'global_multi', 'nonlocal_multi']
REFPOS = ['expr', 'call', 'default', 'decorator', 'annotation', 'base', 'classkw', 'fstring', 'compiter', 'compcond', 'compelt', 'lambdabody', 'walrusvalue',
          'return', 'attrbase', 'subscript', 'store', 'augstore', 'delete', 'closure_call', 'yield', 'kwvalue', 'compiter2', 'nested_fstring', 'conditional', 'global_read',
          'kwdefault', 'vararg_annotation', 'kwarg_annotation', 'kwonly_annotation', 'posonly_default', 'lambda_default', 'lambda_kwdefault', 'class_decorator',
          'return_annotation', 'kwdefault_shadowed', 'default_shadowed', 'decorator_shadowed', 'class_decorator_shadowed', 'base_shadowed', 'classkw_shadowed',
          'annotation_shadowed', 'return_annotation_shadowed', 'lambda_default_shadowed', 'compiter_shadowed', 'class_augassign', 'class_load_store', 'nested_class_method']
SUBJECTS = ['subject', 'A', '_A', 'len', 'x', 'B', 'value']


def ind(lines, n=1):
    return ['    ' * n + l for l in lines]


def bind_lines(form, name, level_kind):
    """statements that bind `name` in a statement scope"""
    if form == 'assign':
        return ['%s = 1' % name]
    if form == 'augassign':
        return ['%s = 1' % name, '%s += 2' % name]
    if form == 'annassign':
        return ['%s: int = 1' % name]
    if form == 'annonly':
        return ['%s: int' % name, 'try:\n    %s\nexcept NameError:\n    %s = 0' % (name, name)]
    if form == 'for':
        return ['for %s in range(2):\n    pass' % name]
    if form == 'with':
        return ['with open("/dev/null") as %s:\n    pass' % name]
    if form == 'except':
        return ['%s = 0' % name, 'try:\n    raise ValueError()\nexcept ValueError as %s:\n    pass\n%s = 5' % (name, name)]
    if form == 'import':
        return ['import os as %s' % name] if name != 'os' else ['import os']
    if form == 'importas':
        return ['import os.path as %s' % name]
    if form == 'fromimport':
        return ['from os import sep as %s' % name]
    if form == 'def':
        return ['def %s():\n    return 7' % name]
    if form == 'class':
        return ['class %s:\n    pass' % name]
    if form == 'walrus':
        return ['if (%s := 3):\n    pass' % name]
    if form == 'walrus_comp':
        return ['tmp_w_ = [(%s := v_) for v_ in range(3)]' % name]
    if form == 'walrus_nested_comp':
        return ['tmp_w_ = [[(%s := v_) * 2 for v_ in range(2)] for row_ in range(2)]' % name]
    if form == 'walrus_comp_cond':
        return ['tmp_w_ = [v_ for v_ in range(3) if (%s := v_) is not None]' % name]
    if form == 'match':
        return ['match 4:\n    case %s:\n        pass' % name]
    if form == 'matchstar':
        return ['match [1, 2]:\n    case [_, *%s]:\n        pass' % name]
    if form == 'matchrest':
        return ['match {"k": 1}:\n    case {**%s}:\n        pass' % name]
    if form == 'del':
        return ['%s = 1' % name, 'del %s' % name, '%s = 2' % name]
    if form == 'tuple':
        return ['(%s, other_) = (1, 2)' % name]
    if form == 'starred':
        return ['[first_, *%s] = [1, 2, 3]' % name]
    if form == 'comptarget':
        return ['%s = 1' % name, 'tmp_ = [%s for %s in range(3)]' % (name, name)]
    return ['%s = 1' % name]


def ref_expr(pos, name):
    """an expression (or statement list) that references `name` at the given position; returns list of statement lines"""
    if pos == 'expr':
        return ['print(%s)' % name]
    if pos == 'call':
        return ['print(str(%s))' % name]
    if pos == 'default':
        return ['def d_(p=%s):\n    return p\nprint(d_())' % name]
    if pos == 'decorator_shadowed':
        return ['def sdeco_(v):\n    return lambda f: f\n@sdeco_(%s)\ndef sdecorated_(%s=0):\n    %s = [%s]\n    return %s\nprint(sdecorated_())' % (name, name, name, name, name)]
    if pos == 'class_decorator_shadowed':
        return ['def scdeco_(v):\n    return lambda c: c\n@scdeco_(%s)\nclass SDecorated_:\n    %s = 5\n    other_ = %s\nprint(SDecorated_.other_)' % (name, name, name)]
    if pos == 'base_shadowed':
        return ['class SBase_(*([%s] if isinstance(%s, type) else [])):\n    %s = 6\nprint(SBase_.%s)' % (name, name, name, name)]
    if pos == 'classkw_shadowed':
        return ['class SKw_(metaclass=type if %s is not None else type):\n    %s = 7' % (name, name)]
    if pos == 'annotation_shadowed':
        return ['def sann_(%s: %s = 0, *rest_: %s, **more_: %s):\n    return %s\nsann_()' % (name, name, name, name, name)]
    if pos == 'return_annotation_shadowed':
        return ['def sret_() -> %s:\n    %s = 1\n    return %s\nsret_()' % (name, name, name)]
    if pos == 'lambda_default_shadowed':
        return ['print((lambda %s=%s: %s)())' % (name, name, name)]
    if pos == 'compiter_shadowed':
        return ['print([%s for %s in [%s]])' % (name, name, name)]
    if pos == 'class_augassign':
        return ['class SAug_:\n    try:\n        %s += 1\n    except Exception as e_:\n        caught_ = type(e_).__name__' % name]
    if pos == 'class_load_store':
        return ['class SLoadStore_:\n    try:\n        %s = %s\n    except NameError:\n        %s = "unbound"\nprint(SLoadStore_.%s)' % (name, name, name, name)]
    if pos == 'nested_class_method':
        return ['class SOuter_:\n    %s = "outer attribute"\n    class SInner_:\n        def method(self):\n            return %s\ntry:\n    print(SOuter_.SInner_().method())\nexcept NameError:\n    print("NameError")' % (name, name)]
    if pos == 'kwdefault':
        return ['def kd_(*, p=%s):\n    return p\nprint(kd_())' % name]
    if pos == 'kwdefault_shadowed':
        return ['def kds_(*, %s=%s):\n    inner_ = %s\n    return inner_\nprint(kds_())' % (name, name, name)]
    if pos == 'default_shadowed':
        return ['def ds_(%s=%s):\n    %s = [%s]\n    return %s\nprint(ds_())' % (name, name, name, name, name)]
    if pos == 'posonly_default':
        return ['def pd_(p=%s, /, q=0):\n    return p\nprint(pd_())' % name]
    if pos == 'vararg_annotation':
        return ['def va_(*rest: %s):\n    return rest\nprint(va_())' % name]
    if pos == 'kwarg_annotation':
        return ['def ka_(**rest: %s):\n    return rest\nprint(ka_())' % name]
    if pos == 'kwonly_annotation':
        return ['def koa_(*, k: %s = 0):\n    return k\nprint(koa_())' % name]
    if pos == 'return_annotation':
        return ['def ra_() -> %s:\n    return 1\nprint(ra_())' % name]
    if pos == 'lambda_default':
        return ['print((lambda p=%s: p)())' % name]
    if pos == 'lambda_kwdefault':
        return ['print((lambda *, p=%s: p)())' % name]
    if pos == 'class_decorator':
        return ['def cdeco_(v):\n    return lambda c: c\n@cdeco_(%s)\nclass Decorated_:\n    pass' % name]
    if pos == 'decorator':
        return ['def deco_(v):\n    return lambda f: v\n@deco_(%s)\ndef decorated_():\n    pass\nprint(decorated_)' % name]
    if pos == 'annotation':
        return ['def ann_(p: %s = 0) -> %s:\n    return p\nann_()' % (name, name)]
    if pos == 'base':
        return ['class Base_(*([%s] if isinstance(%s, type) else [])):\n    pass' % (name, name)]
    if pos == 'classkw':
        return ['class Kw_(metaclass=type if %s is not None else type):\n    pass' % name]
    if pos == 'fstring':
        return ['print(f"{%s!r:>4}")' % name]
    if pos == 'nested_fstring':
        return ['print(f"{f\'{%s}\'}")' % name]
    if pos == 'compiter':
        return ['print([q_ for q_ in [%s]])' % name]
    if pos == 'compiter2':
        return ['print([q_ for p_ in [1] for q_ in [%s]])' % name]
    if pos == 'compcond':
        return ['print([q_ for q_ in range(2) if %s is not None])' % name]
    if pos == 'compelt':
        return ['print([(%s, q_) for q_ in range(2)])' % name]
    if pos == 'lambdabody':
        return ['print((lambda: %s)())' % name]
    if pos == 'walrusvalue':
        return ['print((w_ := %s))' % name]
    if pos == 'return':
        return ['print(%s)' % name]
    if pos == 'attrbase':
        return ['print(%s.__class__.__name__)' % name]
    if pos == 'subscript':
        return ['print([%s][0])' % name]
    if pos == 'store':
        return ['%s = 9\nprint(%s)' % (name, name)]
    if pos == 'augstore':
        return ['try:\n    %s += 1\nexcept Exception as e_:\n    print(type(e_).__name__)' % name]
    if pos == 'delete':
        return ['try:\n    del %s\nexcept NameError as e_:\n    print("NameError")' % name]
    if pos == 'closure_call':
        return ['def clo_():\n    return %s\nprint(clo_())' % name]
    if pos == 'yield':
        return ['def gen_():\n    yield %s\nprint(list(gen_()))' % name]
    if pos == 'kwvalue':
        return ['print(dict(k=%s))' % name]
    if pos == 'conditional':
        return ['print(%s if %s else 0)' % (name, name)]
    if pos == 'global_read':
        return ['print(globals().get("%s", "absent") if False else %s)' % (name, name)]
    return ['print(%s)' % name]


def scope_open(kind, idx, params=''):
    n = 'f%d' % idx
    if kind == 'def':
        return 'def %s(%s):' % (n, params), n
    if kind == 'async':
        return 'async def %s(%s):' % (n, params), n
    if kind == 'class':
        return 'class C%d:' % idx, 'C%d' % idx
    raise ValueError(kind)


def wrap_expr_scopes(kinds, inner_expr, names):
    """nest expression scopes around an expression; returns expression text"""
    e = inner_expr
    for i, k in enumerate(reversed(kinds)):
        v = 'c%d_' % i
        if k == 'lambda':
            e = '(lambda %s=0: %s)()' % (v, e)
        elif k == 'listcomp':
            e = '[%s for %s in range(1)]' % (e, v)
        elif k == 'setcomp':
            e = 'list({%s for %s in range(1)})' % ('str(' + e + ')', v)
        elif k == 'dictcomp':
            e = '{%s: %s for %s in range(1)}' % (v, e, v)
        elif k == 'genexpr':
            e = 'list(%s for %s in range(1))' % (e, v)
    return e


def build(stmt_kinds, expr_kinds, bind_level, binder, ref_pos, subject, decoys=True, declare=None):
    """stmt_kinds: list of statement scopes below the module; bind_level in 0..len(stmt_kinds); the reference sits in the innermost
    statement scope, wrapped in expr_kinds expression scopes."""
    depth = len(stmt_kinds)
    params_at = {}
    body_at = {i: [] for i in range(depth + 1)}
    # subject binding
    if binder in ('param', 'kwonly', 'posonly', 'vararg', 'kwarg', 'default_self'):
        if bind_level == 0 or stmt_kinds[bind_level - 1] == 'class':
            return None
        params_at[bind_level] = {'param': subject, 'kwonly': '*, %s=1' % subject, 'posonly': '%s=1, /' % subject, 'vararg': '*%s' % subject,
                                 'kwarg': '**%s' % subject, 'default_self': '%s=None, other_=2' % subject}[binder]
        if binder == 'param':
            params_at[bind_level] = subject + '=1'
    elif binder == 'global':
        if bind_level == 0:
            return None
        body_at[0] += ['%s = 100' % subject]
        body_at[bind_level] += ['global %s' % subject, '%s = 1' % subject]
    elif binder == 'global_multi':
        if bind_level == 0:
            return None
        body_at[bind_level] += ['global %s, other_g1_, other_g2_' % subject, '%s = 1' % subject, 'other_g1_ = 2', 'other_g2_ = 3', 'print(other_g1_, other_g2_)']
        body_at[depth] += ['print("g")'] if False else []
    elif binder in ('nonlocal', 'nonlocal_multi'):
        if bind_level < 2 or stmt_kinds[bind_level - 1] == 'class':
            return None
        # needs an enclosing function binding
        outer = None
        for k in range(bind_level - 1, 0, -1):
            if stmt_kinds[k - 1] in ('def', 'async'):
                outer = k
                break
        if outer is None:
            return None
        if binder == 'nonlocal_multi':
            body_at[outer] += ['%s = 50' % subject, 'other_n1_ = 51', 'other_n2_ = 52']
            body_at[bind_level] += ['nonlocal %s, other_n1_, other_n2_' % subject, '%s = 1' % subject, 'other_n1_ = 2', 'other_n2_ = 3']
        else:
            body_at[outer] += ['%s = 50' % subject]
            body_at[bind_level] += ['nonlocal %s' % subject, '%s = 1' % subject]
    else:
        body_at[bind_level] += bind_lines(binder, subject, None)
    # decoys: same name in other scopes, renamer-pool names, builtin shadow
    if decoys:
        body_at[0] += ['A = "module A"', 'B = "module B"', 'same_ = "module same"']
        for lvl in range(1, depth + 1):
            if stmt_kinds[lvl - 1] != 'class':
                body_at[lvl] += ['same_ = "level %d"' % lvl, 'local_%d = (A, B, same_)' % lvl, 'print(local_%d)' % lvl]
            else:
                body_at[lvl] += ['attr_%d = "class attribute"' % lvl]
    # reference at innermost level
    ref_stmts = ref_expr(ref_pos, subject)
    if expr_kinds:
        ref_stmts = ['print(%s)' % wrap_expr_scopes(expr_kinds, subject if ref_pos in ('expr', 'return') else '(%s, "%s")' % (subject, ref_pos), None)] + (ref_stmts if ref_pos not in ('expr',) else [])
    body_at[depth] += ref_stmts
    if declare:
        pass
    # assemble inside out
    lines = list(body_at[depth])
    callers = []
    for lvl in range(depth, 0, -1):
        kind = stmt_kinds[lvl - 1]
        head, name = scope_open(kind, lvl, params_at.get(lvl, ''))
        inner = []
        for l in lines:
            inner += l.split('\n')
        if not inner:
            inner = ['pass']
        block = [head] + ind(inner)
        if kind == 'def':
            call = ['try:\n    %s()\nexcept Exception as e_%d:\n    print(type(e_%d).__name__)' % (name, lvl, lvl)]
        elif kind == 'async':
            call = ['import asyncio\ntry:\n    asyncio.run(%s())\nexcept Exception as e_%d:\n    print(type(e_%d).__name__)' % (name, lvl, lvl)]
        else:
            call = []
        lines = list(body_at[lvl - 1]) + block + call
    out = []
    for l in lines:
        out += l.split('\n')
    return '\n'.join(out) + '\n'


def enumerate_params(max_stmt_depth=2, expr_depth=(0, 1), subjects=('subject',)):
    for d in range(0, max_stmt_depth + 1):
        for kinds in itertools.product(STMT_SCOPES, repeat=d):
            for ed in expr_depth:
                for ekinds in (itertools.product(EXPR_SCOPES, repeat=ed) if ed else [()]):
                    for binder in BINDERS:
                        for bl in range(0, d + 1):
                            for rp in REFPOS:
                                for subj in subjects:
                                    yield (kinds, ekinds, bl, binder, rp, subj)


def case_of(params):
    kinds, ekinds, bl, binder, rp, subj = params
    src = build(list(kinds), list(ekinds), bl, binder, rp, subj)
    if src is None:
        return None
    return {'shape': 'scope.%s|%s|%s@%d|%s' % ('/'.join(kinds) or 'module', '/'.join(ekinds) or '-', binder, bl, rp), 'src': src}


def enumerate_cases(max_stmt_depth=2, expr_depth=(0, 1), subjects=('subject',), sample=None, seed=0):
    """exhaustive over nestings x binder x bind level x reference position (sample=N: a seeded random subset)"""
    params = list(enumerate_params(max_stmt_depth, expr_depth, subjects))
    if sample is not None:
        r = common.rng(seed, 'scopegen-enum')
        r.shuffle(params)
    n = 0
    for p in params:
        c = case_of(p)
        if c is None:
            continue
        yield c
        n += 1
        if sample is not None and n >= sample:
            return


def stratified_cases(seed, per_cell=1):
    """one random completion (outer nesting, expression scopes, bind level, subject) for every (innermost statement scope kind, binder, reference position)"""
    for inner in ['module'] + STMT_SCOPES:
        for binder in BINDERS:
            for rp in REFPOS:
                for k in range(per_cell):
                    r = common.rng(seed, 'scopegen-strat', inner, binder, rp, k)
                    for attempt in range(6):
                        if inner == 'module':
                            kinds = []
                        else:
                            kinds = [r.choice(STMT_SCOPES) for _ in range(r.choice([0, 0, 1, 1, 2]))] + [inner]
                        ekinds = [r.choice(EXPR_SCOPES) for _ in range(r.choice([0, 0, 0, 1]))]
                        bl = r.randrange(0, len(kinds) + 1)
                        subj = r.choice(SUBJECTS)
                        src = build(kinds, ekinds, bl, binder, rp, subj)
                        if src is not None:
                            yield {'shape': 'scope.%s|%s|%s@%d|%s|%s' % ('/'.join(kinds) or 'module', '/'.join(ekinds) or '-', binder, bl, rp, subj), 'src': src}
                            break


def sampled_cases(seed, n, max_stmt_depth=4):
    r = common.rng(seed, 'scopegen')
    out = 0
    tries = 0
    while out < n and tries < n * 20:
        tries += 1
        d = r.randrange(0, max_stmt_depth + 1)
        kinds = [r.choice(STMT_SCOPES) for _ in range(d)]
        ekinds = [r.choice(EXPR_SCOPES) for _ in range(r.choice([0, 0, 1, 1, 2, 3]))]
        binder = r.choice(BINDERS)
        bl = r.randrange(0, d + 1)
        rp = r.choice(REFPOS)
        subj = r.choice(SUBJECTS)
        src = build(kinds, ekinds, bl, binder, rp, subj)
        if src is None:
            continue
        out += 1
        yield {'shape': 'scope.%s|%s|%s@%d|%s|%s' % ('/'.join(kinds) or 'module', '/'.join(ekinds) or '-', binder, bl, rp, subj), 'src': src}


def exhaustion_case(n_locals, as_globals=False):
    """name-pool exhaustion: more live names than there are one- and two-letter identifiers before the keywords `as if in is or`"""
    names = ['v%d' % i for i in range(n_locals)]
    if as_globals:
        lines = ['%s = %d' % (n, i) for i, n in enumerate(names)]
        lines.append('print(%s)' % ' + '.join(names[:50]))
        lines.append('total_ = [%s]' % ', '.join(names))
        lines.append('print(len(total_), sum(total_))')
        return '\n'.join(lines) + '\n'
    lines = ['def big():']
    lines += ['    %s = %d' % (n, i) for i, n in enumerate(names)]
    lines.append('    total_ = [%s]' % ', '.join(names))
    lines.append('    more_ = [%s]' % ', '.join(names))
    lines.append('    return len(total_), sum(total_), sum(more_), id is not None, [x for x in (1, 2) if x in (1,) or x is 2]')
    lines.append('print(big())')
    return '\n'.join(lines) + '\n'
