"""A program + one dynamic-name trigger inserted at some position (C09). The generator guarantees the trigger name resolves to the builtin."""
from vf import common
from vf.gen import modgen, scopegen, litgen

TRIGGER_EXPRS = ['eval', 'exec', 'locals', 'globals', 'vars']
# {T} = trigger name.  Each is a list of lines to insert as one top-level chunk (after the program) or wrap.
POSITIONS = [
    ('module_call', "taint_result = {C}"),
    ('module_ref', "taint_reference = {T}"),
    ('nested_def', "def taint_outer():\n    def taint_inner():\n        return {C}\n    return taint_inner"),
    ('class_body', "class TaintHolder:\n    attribute = {T}"),
    ('lambda', "taint_lambda = lambda: {C}"),
    ('decorator', "def taint_deco(v):\n    return lambda f: f\n@taint_deco({T})\ndef taint_decorated():\n    pass"),
    ('default', "def taint_default(p={T}):\n    return p"),
    ('comprehension', "taint_list = [{T} for _ in range(1)]"),
    ('attribute_base', "taint_name = {T}.__name__"),
    ('fstring', "taint_text = f'{{{T}!r}}'"),
    ('after_local_import', "def taint_importer():\n    import os\n    return {T}"),
    ('in_try', "try:\n    taint_value = {T}\nexcept NameError:\n    pass"),
    ('annotation', "def taint_annotated(p: {T} = None):\n    return p"),
    ('method', "class TaintMethods:\n    def method(self, argument_value):\n        local_value = argument_value\n        return {C}"),
    ('genexpr_iter', "taint_any = any(x for x in [{T}])"),
    ('call_arg', "print(len([{T}]))"),
    ('walrus', "if (taint_walrus := {T}):\n    pass"),
    ('return', "def taint_return():\n    return {T}"),
    # the trigger name is also a class attribute somewhere outside: methods still see the builtin (class scopes are skipped)
    ('nested_class_attr_shadow', "class TaintOuter:\n    {T} = 'an outer class attribute of the same name'\n    class TaintInner:\n        def method(self, argument_value):\n            local_value = argument_value\n            return {C}"),
    ('nested_class_attr_shadow3', "class TaintOuter3:\n    {T} = 1\n    class TaintMiddle:\n        {T} = 2\n        class TaintInner:\n            def method(self, argument_value):\n                local_value = argument_value\n                return local_value, {T}"),
    ('class_attr_shadow', "class TaintShadow:\n    {T} = None\n    def method(self, argument_value):\n        local_value = argument_value\n        return {C}"),
    ('except_handler', "try:\n    pass\nexcept Exception:\n    taint_in_handler = [{T} for _ in range(1)]"),
    ('genexpr_call_arg_in_function', "def taint_sum(rows_value):\n    return sum(len(str({C})) for row_value in rows_value)"),
    ('lambda_call_arg_in_function', "def taint_sorted(rows_value):\n    return sorted(rows_value, key=lambda item_value: (item_value, {T}))"),
    ('lambda_default', "taint_key = sorted([1], key=lambda item_value, other_value={T}: item_value)"),
    ('handler_in_function', "def taint_handler(rows_value):\n    try:\n        return rows_value[0]\n    except IndexError as error_value:\n        return [({T}, error_value, row_value) for row_value in rows_value]"),
    ('decorator_in_function', "def taint_factory(first_value):\n    @(lambda function_value: function_value)\n    def inner_function(second_value=[{T} for item_value in range(1)]):\n        return second_value\n    return inner_function"),
    ('async_function', "async def taint_async(argument_value):\n    local_value = argument_value\n    return local_value, {T}"),
    ('conditional_expression', "taint_cond = {T} if taint_cond_flag else None" if False else "taint_cond = None if [] else {T}"),
    ('subscript_index', "taint_table = {{{T}: 1}}[{T}]"),
    ('global_declared_in_function', "def taint_global_user(argument_value):\n    global {T}\n    local_value = argument_value\n    return local_value, {T}"),
    ('del_then_use', "def taint_deleter(argument_value):\n    local_value = argument_value\n    del local_value\n    return {T}"),
]
STAR = [('relative_star', 'from . import *'), ('relative_star_up', 'from .. import *'), ('relative_sibling_star', 'from .sibling import *'),
        ('star_after_plain', 'import os.path\nfrom os.path import join, split\nfrom os.path import *'), ('star_import', 'from os.path import *'), ('star_import_in_try', 'try:\n    from os.path import *\nexcept ImportError:\n    pass')]

BASE_PROGRAMS = [
    "def compute(argument_value, other_value=2):\n    intermediate_value = argument_value * other_value\n    text_value = 'a repeated literal value'\n    return intermediate_value, text_value, 'a repeated literal value', 'a repeated literal value'\nmodule_level_name = compute(3)\nprint(module_level_name, len('a repeated literal value'), len([1]), len([2]), len([3]))\ndef thrower():\n    raise ValueError()\n",
    "class Service:\n    def method(self, parameter_name):\n        local_name = parameter_name + 1\n        return local_name\ninstance_name = Service()\nprint(instance_name.method(1), str(1), str(2), str(3), str(4), str(5))\nprint(None, None, None, None, None, None, True, True, True, True)\n",
]


def call_of(t):
    return {'eval': "eval('1 + 1')", 'exec': "exec('pass')", 'locals': 'locals()', 'globals': 'globals()', 'vars': 'vars()'}[t]


def cases(seed, n):
    r = common.rng(seed, 'taintgen')
    for i in range(n):
        k = r.random()
        if k < 0.25:
            base = r.choice(BASE_PROGRAMS)
        elif k < 0.55:
            base, _ = modgen.generate(seed, 60000 + i, guarded=False, size=8)
        elif k < 0.8:
            base = litgen.generate(seed, 70000 + i)
        else:
            sc = list(scopegen.sampled_cases(seed + i, 1))
            base = sc[0]['src'] if sc else BASE_PROGRAMS[0]
        # the trigger must resolve to the builtin: the base must not bind the trigger name anywhere
        if r.random() < 0.15:
            tag, text = r.choice(STAR)
            trig = '*'
            chunk = text
        else:
            trig = r.choice(TRIGGER_EXPRS)
            tag, tmpl = r.choice(POSITIONS)
            chunk = tmpl.replace('{T}', trig).replace('{C}', call_of(trig))
        if r.random() < 0.5:
            src = base + chunk + '\n'
        else:
            # before the program (but after __future__ imports / docstring lines)
            lines = base.split('\n')
            j = 0
            while j < len(lines) and (lines[j].startswith(('from __future__', '"""', "'", '#', '"')) or not lines[j].strip()):
                j += 1
            src = '\n'.join(lines[:j] + chunk.split('\n') + lines[j:])
        yield {'shape': 'taint.%s.%s' % (trig, tag), 'src': src, 'base': base}
