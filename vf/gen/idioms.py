"""Hand-written runnable idiom programs (C01 and friends): realistic small programs that print what they compute.
They avoid the documented reflective views (names of local functions/classes, annotations, tracebacks, ids)."""

IDIOMS = [
('counter_closure', '''
def make_counter(start=0, step=1):
    count = start
    def increment(times=1):
        nonlocal count
        for _ in range(times):
            count += step
        return count
    def reset():
        nonlocal count
        previous, count = count, start
        return previous
    return increment, reset
inc, reset = make_counter(10, step=5)
print(inc(), inc(times=3), reset(), inc())
'''),
('generator_protocol', '''
def averager():
    total = 0.0
    count = 0
    average = None
    while True:
        value = yield average
        if value is None:
            return total, count
        total += value
        count += 1
        average = total / count
def driver(values):
    gen = averager()
    next(gen)
    seen = [gen.send(v) for v in values]
    try:
        gen.send(None)
    except StopIteration as stop:
        return seen, stop.value
def chain(*iterables):
    for it in iterables:
        yield from it
print(driver([10, 20, 60]), list(chain('ab', range(2), (None,))))
'''),
('class_hierarchy', '''
class Shape(object):
    sides = 0
    registry = {}
    def __init_subclass__(cls, key=None, **kwargs):
        super().__init_subclass__(**kwargs)
        Shape.registry[key or cls.sides] = cls
    def __init__(self, *dimensions):
        self.dimensions = dimensions
    def area(self):
        raise NotImplementedError()
    @property
    def label(self):
        return '%s-sided %r' % (self.sides, self.dimensions)
    @classmethod
    def unit(cls):
        return cls(*([1] * max(cls.sides - 2, 1)))
    @staticmethod
    def describe(shape):
        return shape.label, shape.area()
class Rectangle(Shape, key='rect'):
    sides = 4
    def area(self):
        width, height = self.dimensions
        return width * height
class Square(Rectangle):
    def __init__(self, side):
        super().__init__(side, side)
    def area(self):
        return super().area()
try:
    Shape(1).area()
except NotImplementedError as error:
    print('abstract', error.args)
print(Shape.describe(Rectangle(2, 3)), Shape.describe(Square(4)), sorted(map(str, Shape.registry)), Rectangle.unit().area())
'''),
('slots_and_descriptors', '''
class Positive:
    def __set_name__(self, owner, name):
        self.private = '_' + name
    def __get__(self, instance, owner=None):
        if instance is None:
            return self
        return getattr(instance, self.private, 0)
    def __set__(self, instance, value):
        if value <= 0:
            raise ValueError('must be positive')
        setattr(instance, self.private, value)
class Account:
    __slots__ = ('_balance', 'owner')
    balance = Positive()
    def __init__(self, owner, balance):
        self.owner = owner
        self.balance = balance
account = Account('ann', 10)
try:
    account.balance = -1
except ValueError as error:
    print(error.args[0])
try:
    account.other = 1
except AttributeError:
    print('no attribute')
print(account.owner, account.balance, Account.__slots__)
'''),
('context_managers', '''
import contextlib
events = []
class Tracker:
    def __init__(self, name, swallow=False):
        self.name = name
        self.swallow = swallow
    def __enter__(self):
        events.append(('enter', self.name))
        return self
    def __exit__(self, exc_type, exc, tb):
        events.append(('exit', self.name, exc_type.__name__ if exc_type else None))
        return self.swallow
@contextlib.contextmanager
def managed(name):
    events.append(('before', name))
    try:
        yield name.upper()
    except KeyError:
        events.append(('handled', name))
    finally:
        events.append(('after', name))
with Tracker('outer', swallow=True) as outer, managed('inner') as value:
    events.append(('body', value))
    raise KeyError('boom')
with Tracker('second', swallow=True):
    raise RuntimeError()
print(events)
'''),
('exception_flow', '''
def risky(kind):
    try:
        try:
            if kind == 0:
                return 'returned'
            if kind == 1:
                raise ValueError()
            if kind == 2:
                raise KeyError('missing')
            if kind == 3:
                raise OSError() from ValueError('cause')
            return None
        except ValueError:
            return 'value error'
        finally:
            log.append(('inner finally', kind))
    except KeyError as error:
        log.append(('outer', error.args))
        raise RuntimeError() from None
    else:
        log.append(('else', kind))
    finally:
        log.append(('outer finally', kind))
log = []
results = []
for kind in range(5):
    try:
        results.append(risky(kind))
    except Exception as error:
        results.append((type(error).__name__, type(error.__cause__).__name__, error.__suppress_context__))
print(results)
print(log)
'''),
('dataclass_and_namedtuple', '''
import dataclasses
from dataclasses import dataclass, field
from typing import NamedTuple, List
@dataclass(order=True)
class Version:
    major: int
    minor: int = 0
    tags: List[str] = field(default_factory=list, compare=False)
    def bump(self, part='minor'):
        return dataclasses.replace(self, **{part: getattr(self, part) + 1})
class Point(NamedTuple):
    x: int
    y: int = 0
    def norm1(self):
        return abs(self.x) + abs(self.y)
versions = sorted([Version(1, 2), Version(1), Version(0, 9, ['old'])])
print([dataclasses.astuple(v) for v in versions], Version(1).bump().minor, Version(1).bump(part='major').major)
print(Point(3, -4).norm1(), Point(x=1)._replace(y=2), Point._fields, [f.name for f in dataclasses.fields(Version)])
'''),
('comprehensions_and_scopes', '''
factor = 3
table = {key: [value * factor for value in range(key)] for key in range(1, 4)}
pairs = [(row, col) for row in range(3) for col in range(row) if (row + col) % 2]
class Matrix:
    size = 3
    rows = [[0] * 3 for _ in range(3)]
    diagonal = [i for i in range(3)]
    names = list('row%d' % i for i in range(size))
def nested(limit):
    found = [last for n in range(limit) if (last := n * n) > 3]
    return found, last
squares = {n: n * n for n in range(4)}
evens = {n for n in squares.values() if not n % 2}
print(table, pairs, Matrix.names, Matrix.diagonal, nested(4), sorted(evens))
'''),
('keyword_calls', '''
def configure(host, port=80, *paths, secure=False, timeout=None, **extra):
    return host, port, paths, secure, timeout, sorted(extra.items())
def positional(first, second=2, /, third=3):
    return first, second, third
settings = {'secure': True, 'retries': 3}
print(configure('a'), configure('b', 8080, '/x', '/y', timeout=1.5), configure(port=1, host='c', **settings))
print(positional(1), positional(1, 5, third=7), (lambda value, scale=2: value * scale)(scale=3, value=4))
partial_calls = [lambda offset, base=base: base + offset for base in range(3)]
print([call(offset=10) for call in partial_calls])
'''),
('globals_and_module_state', '''
registry = {}
call_count = 0
def register(name=None):
    def decorator(function):
        global call_count
        call_count += 1
        registry[name or 'anonymous%d' % call_count] = function
        return function
    return decorator
@register('double')
def double(value):
    return value * 2
@register()
def triple(value):
    return value * 3
def run_all(value):
    return sorted((key, function(value)) for key, function in registry.items())
def shadowing(len=len, list=list):
    max = 'shadowed max'
    return len(list('abc')), max
print(run_all(7), call_count, shadowing())
'''),
('string_and_number_literals', '''
values = [1, 1.0, True, 0, 0.0, -0.0, False, 1e22, 1e-7, 0x10, 1_000, 10 ** 2, 7 // 2, -7 // 2, 7 % -3, 2 ** -1, 1 + 2j, (1 + 2j) * 1j]
print([(type(v).__name__, repr(v)) for v in values])
texts = ['plain', "it's", 'say "hi"', 'both \\' and "', 'tab\\there', 'nul\\x00', 'caf\\xe9', '\\u2603', 'a' 'b', r'raw\\d', b'bytes\\xff', """multi
line""", '']
print([repr(t) for t in texts])
name = 'world'
width = 10
print(f'hello {name!r:>{width}}|{width:03d}|{ {"k": 1}["k"]}|{name=}|{{literal}}|{3.14159:.2f}|{"nested " + f"{name}"}')
print('%s and %r and %05.1f and %%' % ('s', 'r', 2.5), '{0}-{1}-{key}'.format('a', 'b', key='c'))
'''),
('control_flow', '''
def classify(value):
    match value:
        case 0 | 1:
            return 'small'
        case int() if value < 0:
            return 'negative'
        case [first, *rest] if rest:
            return ('sequence', first, len(rest))
        case {'type': kind, **others}:
            return ('mapping', kind, sorted(others))
        case str() as text:
            return ('text', text.upper())
        case _:
            return 'other'
def loops(limit):
    found = []
    for number in range(limit):
        if number % 2:
            continue
        if number > 6:
            break
        found.append(number)
    else:
        found.append('completed')
    index = 0
    while index < 3:
        index += 1
        if index == 5:
            break
    else:
        found.append(('while else', index))
    return found
print([classify(v) for v in (0, -5, [1, 2, 3], {'type': 'x', 'a': 1}, 'abc', 2.5)], loops(5), loops(20))
'''),
('async_tasks', '''
import asyncio
async def producer(queue, items):
    for item in items:
        await queue.put(item)
        await asyncio.sleep(0)
    await queue.put(None)
async def consumer(queue):
    collected = []
    while True:
        item = await queue.get()
        if item is None:
            return collected
        collected.append(item * 2)
async def ticker(limit):
    for tick in range(limit):
        yield tick
        await asyncio.sleep(0)
async def main():
    queue = asyncio.Queue()
    produced, consumed = await asyncio.gather(producer(queue, [1, 2, 3]), consumer(queue))
    ticks = [tick async for tick in ticker(3)]
    return produced, consumed, ticks
print(asyncio.run(main()))
'''),
('imports_and_aliases', '''
import os.path
import collections.abc as abc_module
from collections import OrderedDict, defaultdict as ddict
from functools import reduce, partial
import json, math, itertools as it
def summary(values):
    import statistics
    from operator import mul
    grouped = ddict(list)
    for value in values:
        grouped[value % 3].append(value)
    product = reduce(mul, values, 1)
    return OrderedDict(sorted(grouped.items())), product, statistics.mean(values), list(it.accumulate(values))
print(summary([1, 2, 3, 4, 5, 6]), os.path.basename('/a/b.py'), isinstance({}, abc_module.Mapping), json.dumps({'k': [1, None]}), math.floor(2.5), partial(pow, 2)(5))
'''),
('operator_precedence', '''
a, b, c, d = 2, 3, 4, 5
print(a + b * c ** d // a - -b % c, (a + b) * c, -a ** b, (-a) ** b, a ** -b, not a == b, not (a == b), a < b < c, a < b > c != d)
print(a if b else c if d else 0, (a if b else c) if d else 0, [*range(a), *[b]], {**{'k': a}, 'j': b}, (yield_value := a) + b, a & b | c ^ d, ~a << b >> 1)
print(lambda: (a, b), (lambda: a)(), [x for x in (a, b) if x][0], a in [a] is True, (a in [a]) is True, 1 if a else 2 if b else 3)
'''),
]
