"""Literal-only arithmetic for the constant-folding properties (C07, C12).

Operands are bounded so that the *oracle's* evaluation stays cheap (shift <= 256, exponent <= 64, no
string repetition by large counts).
"""
from vf import common

INTS = ['0', '1', '2', '3', '7', '10', '255', '256', '1000', '65535', '2147483648', '9223372036854775807', '100000000000000000000']
FLOATS = ['0.0', '1.0', '0.5', '1.5', '2.5', '1e308', '1e-308', '1e16', '1e22', '0.1', '3.0', '1e999']
COMPLEX = ['1j', '0j', '2.5j']
NAMECONST = ['True', 'False', 'None']
STRS = ["'a'", "b'b'", "''"]
SMALL = ['0', '1', '2', '3', 'True', '1.5']
BINOPS = ['+', '-', '*', '/', '//', '%', '**', '<<', '>>', '|', '^', '&', '@']
UNARY = ['-', '+', '~', 'not ']

OPERANDS = INTS + FLOATS + COMPLEX + NAMECONST          # ~31 representatives
NEG = ['-1', '-2', '-0.0', '-1.5', '-1j', '-255']


def _safe_right(op, right):
    """keep evaluation cheap: exponents and shifts small"""
    if op == '**':
        return right in ('0', '1', '2', '3', '7', '10', '0.5', '1.5', '2.5', '0.0', '1.0', 'True', 'False', 'None', '-1', '-2', '1j', '0j', '-0.0', '3.0', '0.1')
    if op in ('<<',):
        return right in ('0', '1', '2', '3', '7', '10', '255', '256', 'True', 'False', 'None', '-1', '1.0', '0.5', '1j', '-2')
    return True


CONTEXTS = [
    ('assign', 'V = {E}\n'),
    ('default', 'def V(p={E}):\n    return p\n'),
    ('kwdefault', 'def V(*, k={E}):\n    return k\n'),
    ('return', 'def V():\n    return {E}\n'),
    ('list', 'V = [{E}][0]\n'),
    ('tuple', 'V = ({E},)\n'),
    ('dictval', 'V = {{1: {E}}}[1]\n'),
    ('fstring', "V = f'{{{E}}}'\n"),
    ('fstring_repr', "V = f'{{{E}!r:>8}}'\n"),
    ('lambda', 'V = lambda: {E}\n'),
    ('classbody', 'class C:\n    a = {E}\nV = C.a\n'),
    ('ifexp', 'V = {E} if True else 0\n'),
    ('compare', 'V = ({E}) == ({E})\n'),
    ('not', 'V = not ({E})\n'),
    ('neg', 'V = -({E})\n'),
    ('typename', 'V = type({E}).__name__\n'),
    ('decorator', 'def dec(v):\n    def w(f):\n        return v\n    return w\n@dec({E})\ndef V():\n    pass\n'),
    ('dictkey', "V = {{ {E}: 'hit'}}\n"),
    ('callkw', "V = dict(k={E})['k']\n"),
    ('while', 'V = 0\nwhile {E}:\n    V = 1\n    break\n'),
    ('augassign', 'V = 1\nV += {E}\n'),
    ('starred', 'V = [*[{E}]]\n'),
    ('subscript', 'V = list(range(10))[{E}:]\n'),
    ('assert', 'V = 0\nassert {E}, "m"\nV = 1\n'),
    ('annotation', 'V: {E} = 5\n'),
    ('matchvalue', 'match 3:\n    case {E}:\n        V = 1\n    case _:\n        V = 0\n'),
    ('nested_fn', 'def outer():\n    def inner(q={E}):\n        return q\n    return inner()\nV = outer\n'),
    ('comprehension', 'V = [{E} for _ in range(2)]\n'),
    ('attr', 'V = ({E}).__class__\n'),
    ('chain', 'V = 0 < ({E}) < 10\n'),
    ('future_division', 'from __future__ import division\nV = {E}\n'),
    ('future_division_fn', 'from __future__ import division\ndef V():\n    return [{E}]\n'),
]


def grid():
    """All binary operators x all operand pairs (depth 1), plain assignment context, closed expressions."""
    ops = OPERANDS + NEG
    for op in BINOPS:
        for a in ops:
            for b in ops:
                if not _safe_right(op, b):
                    continue
                e = '%s %s %s' % (a, op, b)
                yield {'shape': 'grid.' + op, 'expr': e, 'ctx': 'assign', 'closed': True, 'src': 'V = ' + e + '\n'}
                if op == '/':
                    yield {'shape': 'grid.futdiv', 'expr': e, 'ctx': 'future_division', 'closed': True,
                           'src': 'from __future__ import division\nV = ' + e + '\n'}
        for s in STRS:
            for b in SMALL + ["'a'", "b'b'", 'None']:
                for e in ('%s %s %s' % (s, op, b), '%s %s %s' % (b, op, s)):
                    yield {'shape': 'grid.str' + op, 'expr': e, 'ctx': 'assign', 'closed': True, 'src': 'V = ' + e + '\n'}
    for u in UNARY:
        for a in ops:
            for op in ('+', '*', '-'):
                e = '%s(%s %s %s)' % (u, a, op, '2')
                yield {'shape': 'grid.unary', 'expr': e, 'ctx': 'assign', 'closed': False, 'src': 'V = ' + e + '\n'}


def random_expr(r, depth):
    if depth <= 0 or r.random() < 0.25:
        k = r.random()
        if k < 0.55:
            return r.choice(INTS)
        if k < 0.8:
            return r.choice(FLOATS)
        if k < 0.87:
            return r.choice(COMPLEX)
        if k < 0.95:
            return r.choice(NAMECONST[:2])
        return r.choice(NEG)
    if r.random() < 0.15:
        return '%s(%s)' % (r.choice(UNARY), random_expr(r, depth - 1))
    op = r.choice(BINOPS[:-1])
    a = random_expr(r, depth - 1)
    if op == '**':
        a = r.choice(INTS[:8] + FLOATS[:6] + NEG[:3])
        b = r.choice(['0', '1', '2', '3', '7', '10', '64', '0.5', '-1', '-2'])
    elif op == '<<':
        b = r.choice(['0', '1', '2', '3', '7', '10', '64', '255', '256', '-1'])
    else:
        b = random_expr(r, depth - 1)
    if r.random() < 0.5:
        return '(%s) %s (%s)' % (a, op, b)
    return '%s %s %s' % (a, op, b)


def random_cases(seed, n, depth=4):
    for i in range(n):
        r = common.rng(seed, 'foldgen', i)
        e = random_expr(r, 1 + r.randrange(depth))
        tag, ctx = r.choice(CONTEXTS) if r.random() < 0.6 else CONTEXTS[0]
        yield {'shape': 'rand.' + tag, 'expr': e, 'ctx': tag, 'closed': False, 'src': ctx.replace('{E}', e)}


def neighbour_cases():
    """Literal arithmetic next to names / calls / attributes: must never be evaluated (C12) nor folded across."""
    for e in ['x + 1 + 2', '1 + 2 + x', 'x * (2 * 3)', '(1 + 2).real', 'f(1 + 2)', 'x.y + 1 * 2', "1 + 2 if x else 3 * 4",
              '[1 + 2, x][0]', '-(1 + 2) + x', 'x[1 + 2]', 'x ** (2 * 3)', '(x := 1 + 2)', '1 + len("ab")', '2 * 3 + __import__("os").getpid() * 0']:
        yield {'shape': 'neighbour', 'expr': e, 'ctx': 'neighbour', 'closed': False, 'evaluate': False,
               'src': 'def V(x=5, f=abs):\n    return %s\n' % e}


# the folded node must land in the scope its expression is evaluated in: header positions of a function belong to the *enclosing* scope. A folded
# True / False is a hoisting candidate; with the same constant used often inside the function the hoisted assignment is placed by that scope.
_L6 = '{L}, {L}, {L}, {L}, {L}, {L}'
INTERPLAY_CONTEXTS = [
    ('hdr_default', 'def V(p={E}):\n    return [p, ' + _L6 + ']\n'),
    ('hdr_kwdefault', 'def V(*, k={E}):\n    return [k, ' + _L6 + ']\n'),
    ('hdr_decorator', 'def dec(v):\n    def w(f):\n        return lambda: [v, f()]\n    return w\n@dec({E})\ndef V():\n    return [' + _L6 + ']\n'),
    ('hdr_annotation', 'def V(p: {E} = 0) -> {E}:\n    return [p, ' + _L6 + ']\n'),
    ('hdr_nested_default', 'def V():\n    def inner(q={E}):\n        return [q, ' + _L6 + ']\n    return inner()\n'),
    ('hdr_nested_decorator', 'def V():\n    def dec(v):\n        return lambda f: (lambda: [v, f()])\n    @dec({E})\n    def inner():\n        return [' + _L6 + ']\n    return inner()\n'),
    ('hdr_lambda_default', 'V = lambda p={E}: [p, ' + _L6 + ']\n'),
    ('hdr_class_keyword', 'class M(type):\n    def __new__(c, n, b, d, **k):\n        return type.__new__(c, n, b, d)\n    def __init__(c, n, b, d, **k):\n        c.flag = k\n'
                          'def V():\n    class K(metaclass=M, flag={E}):\n        a = [' + _L6 + ']\n    return K.a, K.flag\n'),
    ('hdr_class_base_in_fn', 'def pick(v):\n    return object\ndef V():\n    class K(pick({E})):\n        def m(self):\n            return [' + _L6 + ']\n    return K().m()\n'),
    ('hdr_method_default', 'class K:\n    def m(self, p={E}):\n        return [p, ' + _L6 + ']\nV = K().m\n'),
    ('hdr_async_default', 'async def co(p={E}):\n    return [p, ' + _L6 + ']\ndef V():\n    c = co()\n    try:\n        c.send(None)\n    except StopIteration as e:\n        return e.value\n'),
    ('comp_cond_in_fn', 'def V(rows=(True, False, True)):\n    return [[row, ' + _L6 + '] for row in rows if row is ({E})]\n'),
    ('comp_elt_in_fn', 'def V(rows=(1, 2)):\n    return [[row, {E}, ' + _L6 + '] for row in rows]\n'),
    ('nested_comp_in_fn', 'def V(rows=((1, 2), (3,))):\n    return [[(cell, {E}, {L}, {L}) for cell in row if {L} or cell] for row in rows if ({E}) is {L}]\n'),
    ('genexp_arg_in_fn', 'def V(rows=(1, 2)):\n    return list((row, {E}, ' + _L6 + ') for row in rows)\n'),
    ('dictcomp_in_fn', 'def V(rows=(1, 2)):\n    return {row: [{E}, ' + _L6 + '] for row in rows}\n'),
    ('lambda_body_args', 'V = lambda *args, **kwargs: [args, kwargs, {E}, ' + _L6 + ']\n'),
    ('lambda_in_fn', 'def V(rows=(1, 2)):\n    key = lambda item, *rest: (item, rest, {E}, ' + _L6 + ')\n    return [key(r) for r in rows]\n'),
    ('comp_at_module', 'V = [[row, {E}, ' + _L6 + '] for row in (1, 2) if ({E}) is {L}]\n'),
    ('body_many', 'def V():\n    return [{E}, ' + _L6 + ']\n'),
    ('comp_iter_in_fn', 'def V():\n    return [[x, ' + _L6 + '] for x in [{E}]]\n'),
    ('module_many', 'V = [{E}, ' + _L6 + ']\n'),
]
_BOOL = ['True', 'False']


def interplay_cases():
    """bool-valued folds (the only folded values that are hoisting candidates) x header / body positions, constant repeated in the function"""
    exprs = []
    for a in _BOOL:
        for b in _BOOL:
            for op in ('|', '&', '^'):
                exprs.append('%s %s %s' % (a, op, b))
    exprs += ['(True | False) & True', 'True ^ (False | False)', 'False | False | True']
    for e in exprs:
        try:
            v = eval(e, {}, {})
        except Exception:
            continue
        if not isinstance(v, bool):
            continue
        for tag, ctx in INTERPLAY_CONTEXTS:
            yield {'shape': 'interplay.' + tag, 'expr': e, 'ctx': tag, 'closed': False, 'interplay': True,
                   'src': ctx.replace('{E}', e).replace('{L}', repr(v))}


def huge_shift_cases():
    """shift counts for which the interpreter gives up at once (MemoryError / OverflowError): must be left alone, never crash the minifier"""
    for e in ['1 << 4611686018427387904', '1 << 9223372036854775807', '2 << 4611686018427387904', '-1 << 4611686018427387904', '1 << 4611686018427387904 >> 1',
              '0 << 4611686018427387904', '1 >> 4611686018427387904']:
        for tag, ctx in (CONTEXTS[0], CONTEXTS[1], ('dead_code', 'V = 5\nif False:\n    W = {E}\n')):
            yield {'shape': 'hugeshift.' + tag, 'expr': e, 'ctx': tag, 'closed': False, 'src': ctx.replace('{E}', e)}
