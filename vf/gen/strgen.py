"""Hostile string / bytes / f-string payloads aimed at the quoting and evaluation code (C12, C02, C08).

Each payload is the *value* of a literal; the source text is produced with ascii()/repr() so the input is valid.
A payload that breaks out of re-quoted text would execute code that creates the canary file / imports the canary module.
"""
from vf import common

QUOTES = ["'", '"', "'''", '"""']


def payloads(canary_path, canary_mod):
    call = "__import__('os').system('touch %s')" % canary_path
    call2 = '__import__("os").system("touch %s")' % canary_path
    imp = "__import__('%s')" % canary_mod
    out = []
    for q in QUOTES:
        out.append(q + '+' + call + '+' + q)
        out.append(q + '+' + call2 + '+' + q)
        out.append(q + ';' + imp + ';' + q)
        out.append('\\' + q + '+' + call + '+\\' + q)
        out.append('\\\\' + q + '+' + call + '+' + q)
        out.append(q + ')+' + call + '+(' + q)
        out.append(q + ' if ' + call + ' else ' + q)
        out.append('x' + q + '\n' + call + '\n' + q)
        out.append(q + ',' + imp + ',' + q)
        out.append(q * 2 + '+' + call + '+' + q * 2)
        out.append(q + '}' + call + '{' + q)
        out.append('{' + call + '}')
        out.append('{' + q + '+' + call + '+' + q + '}')
        out.append(q + '\\')
        out.append('\\' + q)
        out.append(q + '\r' + call + '\r' + q)
        out.append(q + '\x00' + call)
        out.append('\\N{DIGIT ONE}' + q + '+' + call + '+' + q)
        out.append('é' + q + '+' + call + '+' + q + 'é')
        # a character that cannot be encoded (lone surrogate) makes the first candidate literal fail and sends the quoting code down its retry path
        out.append('\udc80' + q + '+' + call2 + '+' + q)
        out.append('\ud800' + q + '+' + call + '+' + q + '\udfff')
        out.append(q + '+' + call + '+' + q + '\udc80')
        # backslash directly before a quote: if the backslash is copied unescaped and the quote escaped, the pair reads as an escaped backslash + closing quote
        out.append('\\' + q + '+' + call + '#')
        out.append('\\' + q + '+' + call2 + '#')
        out.append('\\' + q + '+' + call + '+b' + q)
        out.append('\\\\' + q + '+' + call + '#')
        out.append('\n\\' + q + '+' + call + '#')
    out.append('\\')
    out.append('\\\\')
    out.append("\\'\\\"")
    out.append('#' + call)
    out.append('%(' + call + ')s')
    return out


def lit(s):
    return ascii(s)


def blit(s):
    return repr(s.encode('latin-1', 'replace'))


def positions(p):
    """(tag, source) for one payload value p placed in every literal position."""
    L = lit(p)
    B = blit(p)
    pf = p.replace('{', '{{').replace('}', '}}')
    # f-string text: needs a valid f-string literal whose text value is p; build it through repr of the doubled-brace form
    F = 'f' + ascii(pf).replace('\\\\N', '\\\\N')
    out = [
        ('str', 'x = %s\nprint(x)\n' % L),
        ('str4', 'a = %s\nb = %s\nc = %s\nd = %s\n' % (L, L, L, L)),
        ('bytes', 'x = %s\n' % B),
        ('bytes4', 'a = [%s, %s, %s, %s]\n' % (B, B, B, B)),
        ('docstring', '%s\ndef f():\n    %s\n    return 1\nclass C:\n    %s\n' % (L, L, L)),
        ('fstr_text', 'v = 1\nx = %s\n' % (F[:-1] + '{v}' + F[-1])),
        ('fstr_text2', 'v = 1\nx = %s\n' % (F[:2] + '{v!r:>4}' + F[2:])),
        ('fstr_nested1', 'x = f"{%s}"\n' % L),
        ('fstr_nested1b', "x = f'{%s}'\n" % L),
        ('fstr_nested_bytes', 'x = f"{%s}"\n' % B),
        ('fstr_nested_bytes_b', "x = f'{%s}'\n" % B),
        ('fstr_nested_bytes_c', "x = f'''{%s}'''\n" % B),
        ('fstr_nested_bytes_d', 'v = 1\nx = f"""{v}{%s}{v!r}"""\n' % B),
        ('fstr_nested_bytes_fmt', 'x = f"{%s!r:>{len(%s)}}"\n' % (B, B)),
        ('fstr_text_then_nested', 'v = 1\nx = %s\n' % (F[:-1] + '{v}{' + L + '}' + F[-1])),
        ('fstr_text3', 'v = 1\nx = %s\n' % ('f' + ascii('{v}' + pf + '{v}'))),
        ('fstr_key', 'd = {}\nx = f"{d[%s]}"\n' % L),
        ('fstr_key_bytes', 'd = {}\nx = f"{d[%s]!r:>{len(%s)}}"\n' % (B, L)),
        ('fstr_nested2', 'x = f"{f\'{%s}\'}"\n' % L),
        ('fstr_nested3', 'v = 2\nx = f"{f\'{v:{%s}}\'}"\n' % L),
        ('fstr_call', 'x = f"{len(%s) + 1 * 2}"\n' % L),
        ('fstr_concat', 'v = 1\nx = %s f"{v}"\n' % L),
        ('fold_neighbour', 'x = 1 + 2 + len(%s) + 3 * 4\n' % L),
        ('fold_mul', 'x = %s * (1 + 1)\ny = (2 * 3) * %s\n' % (L, B)),
        ('dict_key', 'x = {%s: 1, %s: 2}\n' % (L, B)),
        ('default_arg', 'def f(a=%s, *, b=%s):\n    return a, b\n' % (L, B)),
        ('match_value', 'match x:\n    case %s:\n        pass\n    case %s:\n        pass\n' % (L, B)),
        ('annotation', 'x: %s = 1\ndef f(a: %s) -> %s:\n    pass\n' % (L, L, L)),
        ('slots', 'class C:\n    __slots__ = (%s,)\n' % L),
        ('all', '__all__ = [%s]\n' % L),
        ('import_like', 'import os\nx = getattr(os, %s, None)\n' % L),
    ]
    return out


def cases(seed, canary_path, canary_mod, limit=None):
    r = common.rng(seed, 'strgen')
    ps = payloads(canary_path, canary_mod)
    out = []
    for i, p in enumerate(ps):
        for tag, src in positions(p):
            try:
                compile(src, 's', 'exec')
            except Exception:
                continue
            out.append({'shape': 'payload.' + tag, 'payload': i, 'src': src})
    if limit and len(out) > limit:
        r.shuffle(out)
        out = out[:limit]
    return out


def cookie_cases(canary_mod):
    """coding cookies naming arbitrary modules / odd codecs"""
    out = []
    for c in [canary_mod, 'os', 'subprocess', 'rot13', 'hex', 'zlib', 'unicode_escape', 'raw_unicode_escape', 'idna', 'punycode',
              'utf-7', 'latin-1', 'undefined', 'mbcs', '../../etc/passwd', canary_mod + '.sub', 'encodings.' + canary_mod]:
        for line in (1, 2):
            src = ('#!/x\n' if line == 2 else '') + '# -*- coding: %s -*-\nx = "abc"\n' % c
            out.append({'shape': 'cookie', 'src_b64': __import__('base64').b64encode(src.encode('latin-1')).decode('ascii')})
    return out


RANDOM_FRAGMENTS = ["'", '"', "'" * 3, '"' * 3, '\\', '\n', '\r', '\t', '{', '}', '{{', '}}', '\x00', '\udc80', '\ud800', '\xe9', ' ', '#', '+', ';', ')', '(',
                    ',', ' ', 'b', 'f', 'r', 'u', '\\N{DIGIT ONE}', '\x7f', '%s', ':', '!r', '=', 'x', '0']


def random_cases(seed, canary_path, canary_mod, n, per_payload=2):
    """random compositions of the fragments the quoting code has to cope with, each placed in a few random literal positions"""
    call = "__import__('os').system('touch %s')" % canary_path
    imp = '__import__("%s")' % canary_mod
    frags = RANDOM_FRAGMENTS + [call, imp]
    out = []
    for i in range(n):
        r = common.rng(seed, 'strgen-random', i)
        p = ''.join(r.choice(frags) for _ in range(r.randrange(1, 9)))
        pos = positions(p)
        r.shuffle(pos)
        k = 0
        for tag, src in pos:
            try:
                compile(src, 's', 'exec')
            except Exception:
                continue
            out.append({'shape': 'random_payload.' + tag, 'payload': 'r%d' % i, 'src': src})
            k += 1
            if k >= per_payload:
                break
    return out


def code_canary_cases(canary_path, canary_mod):
    """a call expression - real code, not the content of a literal - placed where the package looks at values: next to folded arithmetic, in __all__ /
    __slots__ / preserve-relevant assignments, %-formatting, f-string fields and specs, defaults, decorators, annotations, debug tests"""
    call = "__import__('os').system('touch %s')" % canary_path
    imp = "__import__('%s')" % canary_mod
    out = []
    for c in (call, imp):
        for tag, src in [
            ('all_concat', "__all__ = ['name_a'] + [%s]\nname_a = 1\n" % c),
            ('all_augassign', "__all__ = ['name_a']\n__all__ += [%s]\nname_a = 1\n" % c),
            ('all_call_element', "__all__ = ['name_a', str(%s)]\nname_a = 1\n" % c),
            ('all_star', "__all__ = ['name_a', *[%s]]\nname_a = 1\n" % c),
            ('slots', "class K:\n    __slots__ = ('a', str(%s))\n" % c),
            ('percent_tuple', "x = '%%s %%s' %% (%s, 1)\n" % c),
            ('percent_single', "x = 'value %%d' %% %s\n" % c),
            ('str_mul', "x = 'ab' * %s\n" % c),
            ('binop_left', "x = %s + 1 + 2\n" % c),
            ('binop_right', "x = 1 + 2 + %s\n" % c),
            ('binop_bool', "x = %s | False\ny = True & %s\n" % (c, c)),
            ('unary', "x = -%s\ny = not %s\nz = ~%s\n" % (c, c, c)),
            ('compare', "x = 1 < %s < 3\n" % c),
            ('fstring_field', "x = f'{%s}'\n" % c.replace("'", '"')),
            ('fstring_spec', "x = f'{1:{%s}}'\n" % c.replace("'", '"')),
            ('fstring_debug', "x = f'{%s=}'\n" % c.replace("'", '"')),
            ('default', "def f(a=%s, *, b=%s):\n    return a, b\n" % (c, c)),
            ('decorator', "@(%s or (lambda f: f))\ndef f():\n    pass\n" % c),
            ('annotation', "x: %s = 1\ndef f(a: %s) -> %s:\n    pass\n" % (c, c, c)),
            ('debug_test', "if __debug__ and %s:\n    pass\nif __debug__ is %s:\n    pass\n" % (c, c)),
            ('assert', "assert %s, %s\n" % (c, c)),
            ('class_keyword', "class K(metaclass=%s):\n    pass\n" % c),
            ('raise_builtin', "raise ValueError(%s)\n" % c),
            ('return_none', "def f():\n    return None if %s else None\n" % c),
            ('subscript', "x = [1, 2, 3][%s]\ny = {1: 2}[%s]\n" % (c, c)),
            ('match_guard', "match 1:\n    case 1 if %s:\n        pass\n" % c),
            ('literal_statement', "%s\n'doc'\n" % c),
            ('docstring_neighbour', "'doc'\n%s\n" % c),
        ]:
            try:
                compile(src, 's', 'exec')
            except Exception:
                continue
            out.append({'shape': 'code_canary.' + tag, 'payload': 'code', 'src': src})
    return out
