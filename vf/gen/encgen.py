"""program x encoding x newline convention x shebang  (C16, C14, C08)."""
import codecs

from vf import common

# (codec name for encode(), cookie spelling or None, sample non-ASCII text encodable in it)
ENCODINGS = [
    ('utf-8', None, 'café ☃ 日本 \U0001F600'),
    ('utf-8', 'utf-8', 'naïve ☃'),
    ('utf-8-sig', None, 'bom ☃ é'),
    ('utf-8-sig', 'utf-8', 'bom+cookie é'),
    ('latin-1', 'latin-1', 'café ÿ ¡'),
    ('latin-1', 'iso-8859-1', 'crème brûlée'),
    ('cp1252', 'cp1252', 'smart “quotes” € ™'),
    ('iso-8859-15', 'iso-8859-15', 'euro € Š'),
    ('koi8-r', 'koi8-r', 'Привет мир'),
    ('shift_jis', 'shift_jis', '日本語 テスト'),
    ('euc-jp', 'euc-jp', '日本語 テスト'),
    ('gbk', 'gbk', '中文 测试'),
    ('cp437', 'cp437', 'bøx ░▒▓'),
    ('utf-16', None, 'never valid'),
]
COOKIE_FORMS = ['# -*- coding: {0} -*-', '# coding={0}', '# vim: set fileencoding={0} :', '#coding:{0}', '# This Python file uses the following encoding: {0}']
NEWLINES = [('LF', '\n'), ('CRLF', '\r\n'), ('CR', '\r')]
SHEBANGS = [None, '#!/usr/bin/env python', '#!/usr/bin/python3 -u -W ignore', '#!', '#! /usr/bin/env python  ', '#!/bin/sh', '#!/usr/bin/env pythön',
            '#!' + '/very/long' * 40 + '/python', '#!/usr/bin/env python\t# trailing comment']

PROGRAMS = [
    'greeting = "{T}"\nblob = b"bytes \\xff"\ndef show(value):\n    return value + " / " + "{T}"\nprint(show(greeting))\nprint(len(greeting), ascii(greeting))\n',
    'x = 1\n',
    'import sys\nnames = ["{T}", "{T}", "{T}", "plain"]\nfor n in names:\n    print(n.encode("utf-8"))\nprint(sys.version_info[0])\n',
    '"""{T} docstring"""\nclass C:\n    """{T}"""\n    attr = "{T}"\nprint(C.attr, __doc__)\n',
    'd = {{"{T}": 1}}\nprint(sorted(d), f"{{d}} {T}")\n',
    '# comment with {T}\nvalue = 10 * 3\nprint(value)  # {T}\n',
]


def build(program, enc, cookie, text, newline, shebang, cookie_form=0):
    """returns (source bytes or None if not encodable, description)"""
    lines = []
    if shebang is not None:
        lines.append(shebang)
    if cookie is not None:
        lines.append(COOKIE_FORMS[cookie_form % len(COOKIE_FORMS)].format(cookie))
    body = program.replace('{T}', text)
    src = '\n'.join(lines) + ('\n' if lines else '') + body
    src = src.replace('\n', newline)
    try:
        if enc == 'utf-8-sig':
            b = codecs.BOM_UTF8 + src.encode('utf-8')
        else:
            b = src.encode(enc)
    except UnicodeError:
        return None
    return b


def cases(seed, n=None):
    r = common.rng(seed, 'encgen')
    out = []
    for pi, prog in enumerate(PROGRAMS):
        for enc, cookie, text in ENCODINGS:
            for nl_name, nl in NEWLINES:
                for si, sb in enumerate(SHEBANGS):
                    out.append((pi, enc, cookie, text, nl_name, nl, si, sb))
    r.shuffle(out)
    res = []
    for (pi, enc, cookie, text, nl_name, nl, si, sb) in out:
        cf = r.randrange(len(COOKIE_FORMS))
        b = build(PROGRAMS[pi], enc, cookie, text, nl, sb, cf)
        if b is None:
            continue
        res.append({'shape': 'enc.%s.%s.%s.sb%d' % (enc, cookie or 'nocookie', nl_name, si), 'program': pi, 'encoding': enc, 'cookie': cookie,
                    'newline': nl_name, 'shebang_index': si, 'data': b})
        if n and len(res) >= n:
            break
    return res
