"""Literal-rich programs for the hoisting property (C06): the same values repeated across sibling and nested scopes and in
every kind of position, including the ones where a name would mean something else."""
from vf import common

VALUE_SETS = [
    ["'repeated text value'", "b'repeated bytes value'", 'True', 'None'],
    ['True', '1', '1.0', "'1'"],
    ['False', '0', '0.0', '-0.0', "''"],
    ["'a'", "b'a'", "'ab'", "b'ab'"],
    ["'a rather long literal that pays off'", "'another long literal that pays off'", 'None', 'False'],
    ["'x'", "'y'", "b'z'", 'True', 'False', 'None'],
    ["'quote\\'s and \"double\"'", "'back\\\\slash'", "'new\\nline'", "'unicode é ☃'", "b'\\x00\\xff'"],
    ['1000000', '3.14159', '1e100', '2j', "'num neighbours'"],
    ["'__slots__'", "'slot_one'", "'slot_two'", 'None'],
    ["'{braces}'", "'%s percent'", "'#hash'", "''", "b''"],
]
HEADERS = [
    '',
    '"""module docstring: {D}"""\n',
    'from __future__ import annotations\n',
    '"""module docstring"""\nfrom __future__ import annotations\n',
    '"""module docstring"""\nfrom __future__ import annotations, division\nfrom __future__ import generator_stop\n"second string statement"\n',
    '#!/usr/bin/env python\n# comment\n"""doc"""\nimport sys\n',
]

# statement-position snippets: {L} literal, {N} unique suffix
STMT_POS = [
    'value_{N} = {L}',
    'print({L})',
    'print([{L}, {L}, {L}])',
    'table_{N} = {{L}: {L}}',
    'print({L} == {L}, {L} is {L})',
    'print(f"{{L}!r} text {{L}}")',
    'print((lambda: {L})(), (lambda p={L}: p)())',
    'print([{L} for _ in range(2)], [i for i in range(2) if {L}])',
    'def default_{N}(p={L}, *, q={L}):\n    return p, q, {L}\nprint(default_{N}())',
    'def deco_{N}(v):\n    return lambda f: (v, f())\n@deco_{N}({L})\ndef decorated_{N}():\n    return {L}\nprint(decorated_{N})',
    'match {L}:\n    case {P}:\n        print("matched", {L})\n    case _ if {L}:\n        print("guard", {L})\n    case _:\n        print("default", {L})',
    'class Slotted_{N}:\n    __slots__ = ({S}, "other_{N}")\n    kind = {L}\nprint(Slotted_{N}.kind, Slotted_{N}.__slots__)',
    'import sys\nclass SlottedIf_{N}:\n    if sys.version_info >= (3, 0):\n        __slots__ = ({S}, "other_{N}")\n    else:\n        __slots__ = ({S}, "other_{N}", "__weakref__")\n    kind = {L}\nprint(SlottedIf_{N}.kind, SlottedIf_{N}.__slots__)',
    'class SlottedTry_{N}:\n    try:\n        __slots__ = [{S}, {S} + "_b"]\n    except NameError:\n        __slots__ = [{S}]\n    finally:\n        kind = {L}\nprint(SlottedTry_{N}.kind, SlottedTry_{N}.__slots__)',
    'def slotted_factory_{N}():\n    class Inner_{N}:\n        for _unused_{N} in (1,):\n            __slots__ = {{S}: "doc of slot", "other_{N}": {S}}\n        kind = {L}\n    return Inner_{N}\nprint(sorted(slotted_factory_{N}().__slots__), {S})',
    'class Doc_{N}:\n    {D}\n    attr = {L}\n    def method(self):\n        {D}\n        return {L}, self.attr\nprint(Doc_{N}().method(), Doc_{N}.__doc__)',
    'assert {L} is not Ellipsis, {L}',
    'try:\n    raise ValueError({L})\nexcept ValueError as err_{N}:\n    print(err_{N}.args == ({L},))',
    'print(dict(key={L})["key"], [1, 2, 3][{I}:])',
    'annotated_{N}: {L} = {L}',
    'while {L}:\n    print({L})\n    break',
    'print({L} if {L} else {L})',
    'x_{N} = [{L}]\nx_{N}[0] = {L}\ndel x_{N}[0]',
    'print(({L}).__class__.__name__)',
    'print(*[{L}], **{"sep": ","})',
    'for item_{N} in ({L}, {L}):\n    print(item_{N})',
    'with open("/dev/null") as fh_{N}:\n    print({L})',
    'global_{N} = lambda: [{L}, {L}]\nprint(global_{N}())',
    'print(f"{\'literal text {T}\'} {T} {{L}!s:>10}")',
    'def kwdef_{N}(*, a={U}, b={U}, c={U}):\n    return a, b, c\nprint(kwdef_{N}())',
    'def posdef_{N}(a={U}, b={U}, /, c={U}):\n    return a, b, c\nprint(posdef_{N}())',
    'def varann_{N}(*rest: {U}, **more: {U}) -> {U}:\n    return rest, more\nprint(varann_{N}())',
    'def kwann_{N}(*, k: {U} = 0, j: {U} = 1):\n    return k, j\nprint(kwann_{N}())',
    'lam_{N} = lambda *, a={U}, b={U}, c={U}: (a, b, c)\nprint(lam_{N}())',
    'lam2_{N} = lambda a={U}, b={U}, c={U}: (a, b, c)\nprint(lam2_{N}())',
    'class Decorated_{N}:\n    def method(self, a={U}, *, b={U}, c={U}):\n        return a, b, c\nprint(Decorated_{N}().method())',
    'def deco2_{N}(v, w):\n    return lambda f: f\n@deco2_{N}({U}, {U})\ndef target_{N}(x={U}):\n    return x\nprint(target_{N}())',
    'class Base_{N}:\n    def __init_subclass__(cls, **kw):\n        cls.kw = kw\nclass Derived_{N}(Base_{N}, a={U}, b={U}, c={U}):\n    pass\nprint(Derived_{N}.kw)',
]
SCOPES = [
    '{B}',
    'async def adoc_{N}():\n    """shared docstring text"""\n{B1}\nprint(adoc_{N}.__doc__)',
    'async def adoc2_{N}(argument):\n    """shared docstring text"""\n    raise NotImplementedError("shared docstring text")',
    'def sdoc_{N}():\n    """shared docstring text"""\n{B1}\nprint(sdoc_{N}.__doc__)',
    'class CDoc_{N}:\n    """shared docstring text"""\n    text = "shared docstring text"\n    def method(self):\n        """shared docstring text"""\n{B2}\nprint(CDoc_{N}.__doc__, CDoc_{N}.method.__doc__)',
    'def gdoc_{N}():\n    """shared docstring text"""\n    yield "shared docstring text"\nprint(gdoc_{N}.__doc__, list(gdoc_{N}()))',
    'def func_{N}():\n{B1}\nfunc_{N}()',
    'def outer_{N}():\n    def inner_{N}():\n{B2}\n    return inner_{N}()\nouter_{N}()',
    'def holder_{N}():\n    class Local_{N}:\n{B2}\n    return Local_{N}\nholder_{N}()',
    'class Body_{N}:\n{B1}',
    'async def coro_{N}():\n{B1}\nimport asyncio\nasyncio.run(coro_{N}())',
    'def gen_{N}():\n{B1}\n    yield 1\nlist(gen_{N}())',
    'class Outer_{N}:\n    def method(self):\n{B2}\nOuter_{N}().method()',
    'if True:\n{B1}',
    'try:\n{B1}\nfinally:\n    pass',
]


def ind(text, n):
    return '\n'.join(('    ' * n + l) if l else l for l in text.split('\n'))


def generate(seed, index):
    r = common.rng(seed, 'litgen', index)
    values = list(r.choice(VALUE_SETS))
    if r.random() < 0.4:
        values += r.choice(VALUE_SETS)[:2]
    header = r.choice(HEADERS).replace('{D}', 'text')
    chunks = []
    n_scopes = r.randrange(3, 8)
    uid = 0
    for _ in range(n_scopes):
        uid += 1
        scope = r.choice(SCOPES)
        stmts = []
        for _ in range(r.randrange(1, 5)):
            uid += 1
            t = r.choice(STMT_POS)
            L = r.choice(values)
            strs = [v for v in values if v.startswith(("'", '"'))] or ["'slot'"]
            S = r.choice(strs)
            P = L if not L.startswith('-') and L not in ('...',) else '0'
            if P in ('1e100', '1.0', '0.0', '3.14159'):
                P = L
            I = '1'
            D = '"""%s"""' % (r.choice(strs).strip('\'"').replace('\\', '').replace('"', '') or 'doc')
            T = 'plain'
            U = "'only here %d'" % uid if r.random() < 0.7 else r.choice(['None', 'True', 'False'])
            stmt = t.replace('{U}', U).replace('{L}', L).replace('{S}', S).replace('{P}', P).replace('{I}', I).replace('{D}', D).replace('{T}', T).replace('{N}', str(uid))
            stmts.append(stmt)
        body = '\n'.join(stmts)
        if 'class Body_' in scope or 'class Local_' in scope:
            pass
        text = scope.replace('{B}', body).replace('{B1}', ind(body, 1)).replace('{B2}', ind(body, 2)).replace('{N}', str(uid))
        chunks.append(text)
    return header + '\n'.join(chunks) + '\n'
