"""For each option its trigger statement in every context, and each near-miss of its side condition (C05, C01)."""
from vf import common

# (option, tag, statement text (may be multi-line, no indentation), near_miss?)
TRIGGERS = [
    ('remove_pass', 'pass', 'pass', False),
    ('remove_pass', 'pass_then_stmt', 'pass\nresult.append(1)', False),
    ('remove_pass', 'stmt_then_pass', 'result.append(1)\npass', False),
    ('remove_pass', 'two_pass', 'pass\npass', False),
    ('remove_pass', 'ellipsis_stmt', '...', True),
    ('remove_pass', 'zero_stmt', '0', True),
    ('remove_literal_statements', 'docstring', '"""a docstring"""\nresult.append(2)', False),
    ('remove_literal_statements', 'only_literal', "'just a string'", False),
    ('remove_literal_statements', 'number', '1000', False),
    ('remove_literal_statements', 'bytes', "b'bytes'", False),
    ('remove_literal_statements', 'none_true', 'None\nTrue', False),
    ('remove_literal_statements', 'name_expr', 'result', True),
    ('remove_literal_statements', 'fstring_stmt', "f'{result}'", True),
    ('remove_literal_statements', 'tuple_literal', "(1, 2)", True),
    ('remove_literal_statements', 'neg_number', '-1', True),
    ('remove_literal_statements', 'call_stmt', "result.append('literal in call')", True),
    ('remove_asserts', 'assert', 'assert result is not None', False),
    ('remove_asserts', 'assert_msg', "assert len(result) >= 0, 'message'", False),
    ('remove_asserts', 'assert_only', 'assert True', False),
    ('remove_asserts', 'assert_side_effect', 'assert result.append(3) is None', False),
    ('remove_asserts', 'raise_assertion', "if not result:\n    raise AssertionError('x')", True),
    ('remove_debug', 'debug_name', 'if __debug__:\n    result.append(4)', False),
    ('remove_debug', 'debug_is_true', 'if __debug__ is True:\n    result.append(4)', False),
    ('remove_debug', 'debug_is_not_false', 'if __debug__ is not False:\n    result.append(4)', False),
    ('remove_debug', 'debug_eq_true', 'if __debug__ == True:\n    result.append(4)', False),
    ('remove_debug', 'debug_else', 'if __debug__:\n    result.append(4)\nelse:\n    result.append(5)', False),
    ('remove_debug', 'debug_elif', 'if __debug__ is True:\n    result.append(4)\nelif result:\n    result.append(5)\nelse:\n    result.append(6)', False),
    ('remove_debug', 'not_debug', 'if not __debug__:\n    result.append(4)', True),
    ('remove_debug', 'debug_is_false', 'if __debug__ is False:\n    result.append(4)', True),
    ('remove_debug', 'debug_ne_false', 'if __debug__ != False:\n    result.append(4)', True),
    ('remove_debug', 'debug_and', 'if __debug__ and result is not None:\n    result.append(4)', True),
    ('remove_debug', 'other_is_true', 'flag = True\nif flag is True:\n    result.append(4)', True),
    ('remove_debug', 'other_eq_true', 'flag = 1\nif flag == True:\n    result.append(4)', True),
    ('remove_debug', 'other_is_not_false', 'flag = None\nif flag is not False:\n    result.append(4)', True),
    ('remove_debug', 'debug_is_not_none', 'if __debug__ is not None:\n    result.append(4)', True),
    ('remove_debug', 'debug_is_not_name', 'marker = 0\nif __debug__ is not marker:\n    result.append(4)', True),
    ('remove_debug', 'debug_is_name', 'marker = False\nif __debug__ is marker:\n    result.append(4)', True),
    ('remove_debug', 'debug_eq_name', 'marker = False\nif __debug__ == marker:\n    result.append(4)', True),
    ('remove_debug', 'debug_is_not_none_else', 'if __debug__ is not None:\n    result.append(4)\nelse:\n    result.append(5)', True),
    ('remove_debug', 'debug_eq_one', 'if __debug__ == 1:\n    result.append(4)', True),
    ('remove_debug', 'debug_chained', 'if __debug__ is True is True:\n    result.append(4)', True),
    ('remove_debug', 'true_is_debug', 'if True is __debug__:\n    result.append(4)', True),
    ('remove_debug', 'while_debug', 'while __debug__:\n    result.append(4)\n    break', True),
    ('remove_debug', 'ifexp_debug', 'result.append(4 if __debug__ else 5)', True),
    ('remove_explicit_return_none', 'raise_stmt', 'result.append(7)', True),
    ('remove_object_base', 'object_base', 'class K(object):\n    attribute = 1\nresult.append(len(K.__mro__))', False),
    ('remove_object_base', 'object_and_other', 'class K(dict, object):\n    attribute = 1\nresult.append(len(K.__mro__))', False),
    ('remove_object_base', 'object_kw', 'class K(object, metaclass=type):\n    attribute = 1\nresult.append(K.attribute)', False),
    ('remove_object_base', 'object_call_arg', 'result.append(isinstance(result, object))', True),
    ('remove_object_base', 'object_attr_base', 'import builtins\nclass K(builtins.object):\n    attribute = 1\nresult.append(K.attribute)', True),
    ('remove_object_base', 'object_subscript', 'class K(*[object]):\n    attribute = 1\nresult.append(K.attribute)', True),
    ('remove_builtin_exception_brackets', 'raise_call', 'try:\n    raise ValueError()\nexcept ValueError as caught:\n    result.append(caught.args)', False),
    ('remove_builtin_exception_brackets', 'raise_from', 'try:\n    raise TypeError() from KeyError()\nexcept TypeError as caught:\n    result.append(type(caught.__cause__).__name__)', False),
    ('remove_builtin_exception_brackets', 'raise_args', "try:\n    raise ValueError('message')\nexcept ValueError as caught:\n    result.append(caught.args)", True),
    ('remove_builtin_exception_brackets', 'raise_kwargs', "try:\n    raise OSError(*())\nexcept OSError as caught:\n    result.append(caught.args)", True),
    ('remove_builtin_exception_brackets', 'raise_keyword_only', "try:\n    raise ImportError(name='plugin')\nexcept ImportError as caught:\n    result.append(caught.name)", True),
    ('remove_builtin_exception_brackets', 'raise_double_star', "details = {'name': 'plugin'}\ntry:\n    raise ImportError(**details)\nexcept ImportError as caught:\n    result.append(caught.name)", True),
    ('remove_builtin_exception_brackets', 'raise_star_args', "parts = ('a', 'b')\ntry:\n    raise KeyError(*parts)\nexcept KeyError as caught:\n    result.append(caught.args)", True),
    ('remove_builtin_exception_brackets', 'raise_from_keyword', "try:\n    raise RuntimeError() from ImportError(name='plugin')\nexcept RuntimeError as caught:\n    result.append(caught.__cause__.name)", True),
    ('remove_builtin_exception_brackets', 'raise_non_builtin', 'class CustomError(Exception):\n    pass\ntry:\n    raise CustomError()\nexcept CustomError as caught:\n    result.append(caught.args)', True),
    ('remove_builtin_exception_brackets', 'raise_shadowed_local', 'def shadow():\n    ValueError = lambda: KeyError("from lambda")\n    raise ValueError()\ntry:\n    shadow()\nexcept KeyError as caught:\n    result.append(caught.args)', True),
    ('remove_builtin_exception_brackets', 'raise_attr', 'import builtins\ntry:\n    raise builtins.ValueError()\nexcept ValueError as caught:\n    result.append(caught.args)', True),
    ('remove_builtin_exception_brackets', 'call_not_raise', 'result.append(ValueError())', True),
    ('remove_builtin_exception_brackets', 'return_call', 'def make():\n    return ValueError()\nresult.append(type(make()).__name__)', True),
    ('remove_builtin_exception_brackets', 'raise_non_exception_builtin', 'try:\n    raise list()\nexcept TypeError as caught:\n    result.append("TypeError")', True),
    ('remove_builtin_exception_brackets', 'raise_warning_cls', 'try:\n    raise UserWarning()\nexcept UserWarning as caught:\n    result.append(caught.args)', False),
    ('remove_builtin_exception_brackets', 'raise_filenotfound', 'try:\n    raise FileNotFoundError()\nexcept OSError as caught:\n    result.append(type(caught).__name__)', False),
    ('combine_imports', 'two_imports', 'import os\nimport sys\nresult.append(os.sep + str(sys.maxsize > 0))', False),
    ('combine_imports', 'three_from', 'from os import sep\nfrom os import path\nfrom sys import argv\nresult.append(sep)', False),
    ('combine_imports', 'import_stmt_import', 'import os\nresult.append(1)\nimport sys', True),
    ('combine_imports', 'star', 'import json\nimport re', False),
    ('combine_imports', 'from_relative_level', 'from os import sep\nfrom os.path import join\nfrom os import altsep', False),
    ('combine_imports', 'import_as', 'import os as operating\nimport sys as system\nresult.append(operating.sep)', False),
    ('remove_variable_annotations', 'ann_value', 'counter: int = 0\nresult.append(counter)', False),
    ('remove_variable_annotations', 'ann_novalue', 'pending: int\nresult.append(1)', False),
    ('remove_variable_annotations', 'ann_attr', 'class Holder:\n    pass\nholder = Holder()\nholder.attribute: int = 3\nresult.append(holder.attribute)', False),
    ('remove_variable_annotations', 'ann_subscript', 'table = {}\ntable["k"]: int = 3\nresult.append(table)', False),
    ('remove_variable_annotations', 'ann_paren', '(parenthesised): int = 3\nresult.append(parenthesised)', False),
    ('remove_class_attribute_annotations', 'class_attr', 'class Plain:\n    attribute: int = 1\n    other: str\nresult.append(Plain.attribute)', False),
    ('remove_class_attribute_annotations', 'class_attr_nested_if', 'class Plain:\n    if True:\n        attribute: int = 1\nresult.append(Plain.attribute)', False),
    ('remove_class_attribute_annotations', 'dataclass', 'from dataclasses import dataclass\n@dataclass\nclass Data:\n    attribute: int = 1\n    other: str = "x"\nresult.append(Data(2).attribute)', True),
    ('remove_class_attribute_annotations', 'dataclass_call', 'import dataclasses\n@dataclasses.dataclass(frozen=True)\nclass Data:\n    attribute: int = 1\nresult.append(Data(2).attribute)', True),
    ('remove_class_attribute_annotations', 'dataclass_nested_if', 'from dataclasses import dataclass\n@dataclass\nclass Data:\n    if True:\n        attribute: int = 1\nresult.append(Data(2).attribute)', True),
    ('remove_class_attribute_annotations', 'dataclass_second_decorator', 'import dataclasses, functools\n@functools.total_ordering\n@dataclasses.dataclass(eq=False)\nclass Version:\n    major: int = 0\n    minor: int = 0\n    def __eq__(self, o):\n        return self.major == o.major\n    def __lt__(self, o):\n        return self.major < o.major\nresult.append(Version(3, 12).minor)', True),
    ('remove_class_attribute_annotations', 'dataclass_last_of_three', 'from dataclasses import dataclass\ndef first_decorator(c):\n    return c\n@first_decorator\n@first_decorator\n@dataclass\nclass Data:\n    attribute: int = 1\nresult.append(Data(2).attribute)', True),
    ('remove_class_attribute_annotations', 'namedtuple_generic', 'from typing import NamedTuple, Generic, TypeVar\nT = TypeVar("T")\nclass Pair(NamedTuple, Generic[T]):\n    left: T\n    right: int = 0\nresult.append(tuple(Pair(1)))', True),
    ('remove_class_attribute_annotations', 'typeddict_total', 'from typing import TypedDict\nclass Movie(TypedDict, total=False):\n    title: str\n    year: int\nresult.append(sorted(Movie.__annotations__))', True),
    ('remove_class_attribute_annotations', 'namedtuple', 'from typing import NamedTuple\nclass Pair(NamedTuple):\n    left: int\n    right: int = 0\nresult.append(tuple(Pair(1)))', True),
    ('remove_class_attribute_annotations', 'typeddict', 'import typing\nclass Movie(typing.TypedDict):\n    title: str\n    year: int\nresult.append(sorted(Movie.__annotations__))', True),
    ('remove_class_attribute_annotations', 'namedtuple_in_try', 'from typing import NamedTuple\nclass Pair(NamedTuple):\n    try:\n        left: int = 0\n    finally:\n        pass\nresult.append(tuple(Pair()))', True),
    ('remove_argument_annotations', 'arg_ann', 'def annotated(first: int, *rest: str, key: float = 1.0, **others: bytes):\n    return first\nresult.append(annotated(1))', False),
    ('remove_argument_annotations', 'lambda_none', 'plain = lambda first, second=2: first\nresult.append(plain(1))', True),
    ('remove_return_annotations', 'return_ann', 'def annotated() -> int:\n    return 1\nresult.append(annotated())', False),
    ('remove_return_annotations', 'async_return_ann', 'async def annotated() -> "Forward":\n    return 1\nresult.append(1)', False),
    ('convert_posargs_to_args', 'posonly', 'def positional(first, second=2, /, third=3):\n    return first + second + third\nresult.append(positional(1, 2, third=4))', False),
    ('convert_posargs_to_args', 'posonly_lambda', 'positional = lambda first, /, second: first + second\nresult.append(positional(1, second=2))', False),
    ('constant_folding', 'fold', 'result.append(10 * 60 * 60)\nresult.append(1 << 10)\nresult.append(0xff & 0x0f)', False),
    ('constant_folding', 'fold_div_pow', 'result.append(100 / 8)\nresult.append(2 ** 16)', True),
    ('constant_folding', 'fold_str', "result.append('ab' * 3)\nresult.append('a' + 'b')", True),
    ('constant_folding', 'fold_raise', 'try:\n    result.append(1 // 0)\nexcept ZeroDivisionError:\n    result.append("zde")', True),
    ('constant_folding', 'fold_names', 'one = 1\nresult.append(one + 2 + 3)\nresult.append(2 + 3 + one)', True),
    ('hoist_literals', 'repeat_str', "result.append('a repeated literal value')\nresult.append('a repeated literal value')\nresult.append('a repeated literal value')", False),
    ('hoist_literals', 'repeat_none', 'result.append(None)\nresult.append(None)\nresult.append(None)\nresult.append(None)\nresult.append(None)\nresult.append(None)', False),
    ('rename_locals', 'locals', 'def compute(argument_value):\n    intermediate_value = argument_value * 2\n    return intermediate_value + argument_value\nresult.append(compute(2))', False),
]

RETURN_TRIGGERS = [
    ('remove_explicit_return_none', 'return_none_last', 'result.append(8)\nreturn None', False),
    ('remove_explicit_return_none', 'return_bare_last', 'result.append(8)\nreturn', False),
    ('remove_explicit_return_none', 'return_none_only', 'return None', False),
    ('remove_explicit_return_none', 'return_none_middle', 'if result:\n    return None\nresult.append(8)', False),
    ('remove_explicit_return_none', 'return_value_last', 'result.append(8)\nreturn 0', True),
    ('remove_explicit_return_none', 'return_none_in_if_last', 'if result:\n    result.append(8)\n    return None', True),
    ('remove_explicit_return_none', 'return_tuple', 'return None,', True),
    ('remove_explicit_return_none', 'return_none_in_try', 'try:\n    return None\nfinally:\n    result.append(9)', True),
    ('remove_explicit_return_none', 'yield_then_return', 'yield 1\nreturn None', False),
    ('remove_explicit_return_none', 'return_ellipsis', 'return ...', True),
    ('remove_explicit_return_none', 'return_false', 'return False', True),
]


def indent(text, n=1):
    return '\n'.join('    ' * n + l if l else l for l in text.split('\n'))


# context: (tag, template with {S} for the statements at the right indentation)
def contexts():
    return [
        ('module', '{S0}'),
        ('def', 'def context_function():\n{S1}\ncontext_function()'),
        ('class', 'class ContextClass:\n{S1}'),
        ('if', 'if len(result) >= 0:\n{S1}'),
        ('else', 'if len(result) < 0:\n    result.append(-1)\nelse:\n{S1}'),
        ('elif', 'if len(result) < 0:\n    result.append(-1)\nelif True:\n{S1}\nelse:\n    result.append(-2)'),
        ('for', 'for loop_variable in range(2):\n{S1}'),
        ('for_else', 'for loop_variable in range(1):\n    result.append(loop_variable)\nelse:\n{S1}'),
        ('while', 'while_guard = 0\nwhile while_guard < 1:\n    while_guard += 1\n{S1}'),
        ('while_else', 'while False:\n    result.append(-3)\nelse:\n{S1}'),
        ('try', 'try:\n{S1}\nexcept Exception as context_error:\n    result.append(type(context_error).__name__)'),
        ('except', 'try:\n    raise KeyError("k")\nexcept KeyError:\n{S1}'),
        ('try_else', 'try:\n    result.append(-4)\nexcept Exception:\n    result.append(-5)\nelse:\n{S1}'),
        ('finally', 'try:\n    result.append(-4)\nfinally:\n{S1}'),
        ('except_star', 'try:\n    raise ExceptionGroup("g", [KeyError("k")])\nexcept* KeyError:\n{S1}'),
        ('with', 'with open("/dev/null") as context_handle:\n{S1}'),
        ('match_case', 'match len(result) >= 0:\n    case True:\n{S2}\n    case _:\n        result.append(-6)'),
        ('nested_def_class', 'def outer_context():\n    class InnerContext:\n        def method(self):\n{S3}\n    return InnerContext().method()\nouter_context()'),
        ('def_in_if_in_for', 'for outer_loop in range(1):\n    if outer_loop == 0:\n        def nested_function():\n{S3}\n        nested_function()'),
        ('def_in_except', 'try:\n    raise KeyError("k")\nexcept KeyError:\n    def handler_function(handler_argument=1):\n        if handler_argument:\n            handler_copy = [handler_argument, handler_argument, handler_argument, "a repeated literal", "a repeated literal", "a repeated literal"]\n{S2}\n    handler_function()'),
        ('def_in_match_case', 'match len(result) >= 0:\n    case True:\n        def case_function(case_argument=2):\n            for case_item in (case_argument, case_argument):\n                case_copy = [case_argument, case_argument, case_argument, "another repeated literal", "another repeated literal", "another repeated literal"]\n{S3}\n        case_function()\n    case _:\n        result.append(-7)'),
        ('async_def', 'import asyncio\nasync def context_coroutine():\n{S1}\nasyncio.run(context_coroutine())'),
        ('lambda_default', 'def uses_default(parameter=lambda: None):\n{S1}\nuses_default()'),
    ]


def render(ctx_template, stmt):
    return ctx_template.replace('{S0}', stmt).replace('{S1}', indent(stmt, 1)).replace('{S2}', indent(stmt, 2)).replace('{S3}', indent(stmt, 3))


HEADER = 'result = []\n'
FOOTER = '\nprint(result)\n'


def cases():
    ctxs = contexts()
    for opt, tag, stmt, near in TRIGGERS:
        for ctag, tmpl in ctxs:
            src = HEADER + render(tmpl, stmt) + FOOTER
            yield {'shape': 'trigger.%s.%s@%s' % (opt, tag, ctag), 'option': opt, 'near_miss': near, 'src': src}
    fctx = [c for c in ctxs if c[0] in ('def', 'nested_def_class', 'def_in_if_in_for', 'def_in_except', 'def_in_match_case', 'async_def', 'lambda_default')]
    for opt, tag, stmt, near in RETURN_TRIGGERS:
        for ctag, tmpl in fctx:
            if 'yield' in stmt and ctag == 'async_def':
                continue
            src = HEADER + render(tmpl, stmt) + FOOTER
            if 'yield' in stmt:
                src = src.replace('context_function()\n', 'list(context_function())\n').replace('InnerContext().method()', 'list(InnerContext().method())').replace('        nested_function()', '        list(nested_function())').replace('uses_default()\n', 'list(uses_default())\n').replace('    handler_function()', '    list(handler_function())').replace('        case_function()', '        list(case_function())')
            yield {'shape': 'trigger.%s.%s@%s' % (opt, tag, ctag), 'option': opt, 'near_miss': near, 'src': src}
    # module level specials
    specials = [
        ('remove_literal_statements', 'module_doc_plain', '"""module docstring"""\nresult = []\nprint(result)\n', False),
        ('remove_literal_statements', 'module_doc_name_used', '"""module docstring"""\nresult = [__doc__]\nprint(result)\n', True),
        ('remove_literal_statements', 'module_doc_attr_used', '"""module docstring"""\nimport sys\nresult = [sys.modules[__name__].__doc__ if __name__ in sys.modules else None]\nprint(len(result))\n', True),
        ('remove_literal_statements', 'module_doc_in_function', '"""module docstring"""\ndef reader():\n    """function docstring"""\n    return __doc__\nprint(reader())\n', True),
        ('remove_literal_statements', 'class_doc_used', 'class Documented:\n    """class docstring"""\n    attribute = 1\nprint(Documented.__doc__)\n', True),
        ('combine_imports', 'future_import', 'from __future__ import annotations\nfrom __future__ import division\nimport os\nimport sys\nprint(os.sep)\n', False),
        ('combine_imports', 'star_between', 'from os.path import join\nfrom os.path import *\nfrom os.path import split\nprint(join("a", "b"))\n', False),
        ('remove_literal_statements', 'module_doc_augassign_only', '"""module docstring"""\n__doc__ += " (extended)"\nresult = [1]\nprint(result)\n', True),
        ('remove_literal_statements', 'module_doc_augassign_format', '"""module docstring %(name)s"""\n__doc__ %= {"name": "x"}\nprint(1)\n', True),
        ('remove_literal_statements', 'module_doc_deleted', '"""module docstring"""\ndel __doc__\nprint(1)\n', True),
        ('remove_literal_statements', 'class_doc_augassign', 'class K:\n    """class docstring"""\n    __doc__ += " more"\nprint(K.__doc__)\n', True),
        ('remove_pass', 'pass_then_string_in_def', "def f():\n    pass\n    'not a docstring'\n    return 1\nprint(f.__doc__, f())\n", True),
        ('remove_pass', 'pass_then_string_in_class', "class C:\n    pass\n    'not a docstring'\n    x = 1\nprint(C.__doc__, C.x)\n", True),
        ('remove_pass', 'pass_then_string_in_module', "pass\n'not a docstring'\nprint(__doc__)\n", True),
        ('remove_pass', 'pass_then_string_in_async_def', "async def f():\n    pass\n    'not a docstring'\nprint(f.__doc__)\n", True),
        ('remove_variable_annotations', 'annotation_yield_makes_generator', "def g():\n    x: (yield 1)\n    return 2\ntry:\n    print(list(g()))\nexcept TypeError as e:\n    print('TypeError')\n", True),
        ('remove_asserts', 'assert_yield_makes_generator', "def g():\n    assert (yield 1)\n    return 2\ntry:\n    print(list(g()))\nexcept TypeError as e:\n    print('TypeError')\n", True),
        ('remove_debug', 'debug_yield_makes_generator', "def g():\n    if __debug__:\n        yield 1\n    return 2\ntry:\n    print(list(g()))\nexcept TypeError as e:\n    print('TypeError')\n", True),
        ('remove_debug', 'debug_global_declaration', "counter = 0\ndef bump():\n    if __debug__:\n        global counter\n    counter = 5\n    return counter\nprint(bump(), counter)\n", True),
        ('remove_asserts', 'assert_then_string_in_def', "def f():\n    assert True\n    'not a docstring'\n    return 1\nprint(f.__doc__, f())\n", True),
        ('remove_debug', 'debug_then_string_in_def', "def f():\n    if __debug__:\n        pass\n    'not a docstring'\n    return 1\nprint(f.__doc__, f())\n", True),
        ('remove_debug', 'debug_else_string_in_def', "def f():\n    if __debug__:\n        pass\n    else:\n        'not a docstring'\n    return 1\nprint(f.__doc__, f())\n", True),
        ('remove_literal_statements', 'number_then_string_in_def', "def f():\n    0\n    'not a docstring'\n    return 1\nprint(f())\n", True),
        ('remove_literal_statements', 'docstring_then_string_in_def', "def f():\n    'the docstring'\n    'not a docstring'\n    return 1\nprint(f())\n", True),
        ('combine_imports', 'relative_levels_same_module', 'try:\n    from .util import helper\n    from ..util import shared\n    from ...util import deep\n    from .util import other\nexcept ImportError as e:\n    print(type(e).__name__)\n', False),
        ('combine_imports', 'relative_and_absolute_same_module', 'try:\n    from util import helper\n    from .util import shared\n    from . import util\n    from .. import util as parent_util\nexcept ImportError as e:\n    print(type(e).__name__)\n', False),
        ('combine_imports', 'relative', 'try:\n    from . import sibling\n    from . import other\n    from .. import parent\nexcept ImportError as e:\n    print(type(e).__name__)\n', False),
        ('remove_builtin_exception_brackets', 'shadowed_global', 'class ValueError(Exception):\n    def __init__(self):\n        super().__init__("custom")\ntry:\n    raise ValueError()\nexcept Exception as caught:\n    print(caught.args)\n', True),
        ('remove_builtin_exception_brackets', 'imported_name', 'from builtins import KeyError as ValueError\ntry:\n    raise ValueError()\nexcept KeyError as caught:\n    print("KeyError")\n', True),
        ('remove_builtin_exception_brackets', 'deleted_global', 'ValueError = ValueError\ndef thrower():\n    raise ValueError()\ntry:\n    thrower()\nexcept Exception as caught:\n    print(type(caught).__name__)\n', True),
        ('remove_builtin_exception_brackets', 'class_attr_shadow', 'class Holder:\n    ValueError = KeyError\n    try:\n        raise ValueError()\n    except KeyError:\n        caught = "KeyError"\nprint(Holder.caught)\n', True),
        ('remove_builtin_exception_brackets', 'star_import', 'from os.path import *\ndef thrower():\n    raise ValueError()\ntry:\n    thrower()\nexcept ValueError as caught:\n    print(caught.args)\n', True),
        ('remove_object_base', 'object_match_capture', 'class Base:\n    marker = "base"\nmatch Base:\n    case object:\n        pass\nclass Derived(object):\n    pass\nprint(Derived.marker)\n', True),
        ('remove_object_base', 'object_in_handler', 'class Base(Exception):\n    marker = "base"\ntry:\n    raise Base()\nexcept Base as object:\n    class Derived(type(object)):\n        pass\n    class Plain(object.__class__, object.__class__.__mro__[-1]):\n        pass\nprint(Derived.marker, Plain.marker)\n', True),
        ('remove_object_base', 'object_type_parameter', 'class Holder[object]:\n    bases = (object,)\n    try:\n        class Inner(object):\n            pass\n        result = "created"\n    except TypeError:\n        result = "TypeError"\nprint(Holder.result)\n', True),
        ('remove_object_base', 'object_shadowed', 'class object:\n    marker = "shadow"\nclass Derived(object):\n    pass\nprint(Derived.marker)\n', True),
    ]
    for opt, tag, src, near in specials:
        yield {'shape': 'trigger.%s.%s@special' % (opt, tag), 'option': opt, 'near_miss': near, 'src': src}
