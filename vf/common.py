"""Shared constants and helpers for the python-minifier runtime monitors (stdlib only)."""
import ast
import glob
import hashlib
import json
import os
import random
import sys

VERIF = os.path.dirname(os.path.dirname(os.path.abspath(__file__)))
# VF_REPO is a calibration-only override; MANIFEST commands never set it.
REPO = os.environ.get('VF_REPO', '/repo')
REPO_SRC = os.path.join(REPO, 'src')
VENV_PY = '/venv/bin/python'
PYENV = '/root/.pyenv/versions'

BOOL_OPTIONS = [
    'combine_imports', 'remove_pass', 'remove_literal_statements', 'hoist_literals', 'rename_locals',
    'rename_globals', 'remove_object_base', 'convert_posargs_to_args', 'preserve_shebang', 'remove_asserts',
    'remove_debug', 'remove_explicit_return_none', 'remove_builtin_exception_brackets', 'constant_folding',
]
ANNOTATION_OPTIONS = [
    'remove_variable_annotations', 'remove_return_annotations', 'remove_argument_annotations',
    'remove_class_attribute_annotations',
]
ALL_SWITCHES = BOOL_OPTIONS + ANNOTATION_OPTIONS  # 18
DEFAULTS = {
    'combine_imports': True, 'remove_pass': True, 'remove_literal_statements': False, 'hoist_literals': True,
    'rename_locals': True, 'rename_globals': False, 'remove_object_base': True, 'convert_posargs_to_args': True,
    'preserve_shebang': True, 'remove_asserts': False, 'remove_debug': False, 'remove_explicit_return_none': True,
    'remove_builtin_exception_brackets': True, 'constant_folding': True,
    'remove_variable_annotations': True, 'remove_return_annotations': True, 'remove_argument_annotations': True,
    'remove_class_attribute_annotations': False,
}
# "documented as safe": the defaults and any subset of them (the 13 default-on switches; preserve_shebang is
# not a transform of the program and is left on).
SAFE_SWITCHES = [k for k in ALL_SWITCHES if DEFAULTS[k] and k != 'preserve_shebang']
UNSAFE_SWITCHES = [k for k in ALL_SWITCHES if not DEFAULTS[k]]


def all_off():
    return {k: False for k in ALL_SWITCHES}


def defaults():
    return dict(DEFAULTS)


def opts_to_kwargs(opts, pm=None):
    """Turn a flat switch dict (+ optional preserve lists) into minify() keyword arguments."""
    if pm is None:
        import python_minifier as pm
    kw = {}
    for k in BOOL_OPTIONS:
        if k in opts:
            kw[k] = opts[k]
    if any(k in opts for k in ANNOTATION_OPTIONS):
        d = {k: opts.get(k, DEFAULTS[k]) for k in ANNOTATION_OPTIONS}
        kw['remove_annotations'] = pm.RemoveAnnotationsOptions(**d)
    for k in ('preserve_locals', 'preserve_globals'):
        if k in opts and opts[k] is not None:
            v = opts[k]
            kw[k] = list(v) if isinstance(v, (list, tuple)) else v
    return kw


def opts_key(opts):
    return ''.join('1' if opts.get(k, DEFAULTS[k]) else '0' for k in ALL_SWITCHES)


def interpreters():
    """All CPython interpreters present: list of (version string, path). /venv python first."""
    out = [('3.12-venv', VENV_PY)]
    for d in sorted(glob.glob(os.path.join(PYENV, '*'))):
        p = os.path.join(d, 'bin', 'python')
        if os.path.exists(p):
            out.append((os.path.basename(d), p))
    return out


def compat_single(version, case, timeout=120):
    """one case through vf/compat_worker.py inside the named interpreter (replay of cross-interpreter witnesses)"""
    import json
    import subprocess
    py = dict(interpreters()).get(version)
    if py is None:
        return {'inconclusive': 'interpreter %s not installed' % version}
    env = clean_env()
    env['PYTHONPATH'] = REPO_SRC
    env['PYTHONHASHSEED'] = '0'
    p = subprocess.run([py, '-W', 'ignore', os.path.join(VERIF, 'vf', 'compat_worker.py')], input=(json.dumps({'batch': [case]}) + '\n').encode('utf-8'),
                       stdout=subprocess.PIPE, stderr=subprocess.PIPE, env=env, timeout=timeout)
    try:
        return json.loads(p.stdout.decode('utf-8').strip().split('\n')[-1])['batch'][0]
    except Exception as e:
        return {'inconclusive': 'compat worker gave no result: %s %s' % (e, p.stderr.decode('utf-8', 'replace')[-300:])}


def pyenv_interpreters():
    return [(v, p) for v, p in interpreters() if v != '3.12-venv']


def stdlib_dir(version):
    mm = '.'.join(version.split('.')[:2])
    return os.path.join(PYENV, version, 'lib', 'python' + mm)


def sha(data):
    if isinstance(data, str):
        data = data.encode('utf-8', 'surrogatepass')
    return hashlib.sha256(data).hexdigest()[:16]


def rng(seed, *parts):
    h = hashlib.sha256(('%s|' % seed + '|'.join(str(p) for p in parts)).encode()).digest()
    return random.Random(int.from_bytes(h[:8], 'big'))


def env_seed():
    try:
        return int(os.environ.get('VERIF_SEED', '0'))
    except ValueError:
        return 0


def corpus_files(kind='real'):
    d = os.path.join(VERIF, 'corpus', kind)
    return sorted(glob.glob(os.path.join(d, '**', '*.py'), recursive=True))


def extended_corpus(max_bytes=90000):
    """more real code for thorough tiers: pure-Python packages of the installed CPython 3.12 standard library (part of the image, not of /verif;
    an absent file is simply not used). The pinned corpus under corpus/ stays the reference set."""
    lib = stdlib_dir('3.12.1')
    out = []
    for pkg in ('json', 'email', 'http', 'logging', 'unittest', 'importlib', 'collections', 'asyncio', 'concurrent', 'xml', 'urllib', 'html', 'sqlite3',
                'wsgiref', 'zoneinfo', 'tomllib', 're', 'multiprocessing', 'dbm', 'curses', 'venv', 'ensurepip', 'pydoc_data', 'xmlrpc', 'zipfile', 'sysconfig'):
        d = os.path.join(lib, pkg)
        for f in sorted(glob.glob(os.path.join(d, '**', '*.py'), recursive=True)):
            if os.sep + 'test' in f or os.path.getsize(f) > max_bytes or os.path.getsize(f) == 0:
                continue
            out.append(f)
    pinned = set(os.path.basename(f) for f in corpus_files('real'))
    for f in sorted(glob.glob(os.path.join(lib, '*.py'))):
        if os.path.basename(f) not in pinned and 0 < os.path.getsize(f) <= max_bytes:
            out.append(f)
    return out


def read_text(path):
    with open(path, 'rb') as f:
        return f.read()


def clean_env(extra=None, hashseed='0'):
    env = dict(os.environ)
    for k in ('PYMINIFY_FORCE_BEST_EFFORT', 'PYTHONSTARTUP', 'PYTHONINSPECT'):
        env.pop(k, None)
    env['PYTHONDONTWRITEBYTECODE'] = '1'
    if hashseed is not None:
        env['PYTHONHASHSEED'] = str(hashseed)
    env['PYTHONPATH'] = REPO_SRC + os.pathsep + VERIF
    env['PYTHONIOENCODING'] = 'utf-8'
    env['PYTHONWARNINGS'] = 'ignore'
    if extra:
        env.update(extra)
    return env


def abbreviate(s, n=300):
    if not isinstance(s, str):
        s = repr(s)
    return s if len(s) <= n else s[:n] + '...[%d more]' % (len(s) - n)
