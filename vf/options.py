"""Option-set lattices and samplers over the 18 boolean switches of minify()."""
import itertools

from vf import common
from vf.common import ALL_SWITCHES, DEFAULTS, SAFE_SWITCHES, UNSAFE_SWITCHES


def all_off():
    return {k: False for k in ALL_SWITCHES}


def all_on():
    return {k: True for k in ALL_SWITCHES}


def default():
    return dict(DEFAULTS)


def single_on(k):
    d = all_off()
    d[k] = True
    return d


def single_off_from_default(k):
    d = default()
    d[k] = False
    return d


def single_off_from_all_on(k):
    d = all_on()
    d[k] = False
    return d


def random_set(r, p=0.5):
    return {k: (r.random() < p) for k in ALL_SWITCHES}


def random_safe(r):
    """A subset of the 13 default-on switches; the 5 default-off ones stay off (preserve_shebang stays on)."""
    d = {k: False for k in ALL_SWITCHES}
    d['preserve_shebang'] = True
    for k in SAFE_SWITCHES:
        d[k] = r.random() < 0.6
    return d


def pairwise(switches=None, base=None):
    """A small covering array: every pair of switches sees all four value combinations.
    Built greedily and deterministically."""
    switches = list(switches or ALL_SWITCHES)
    base = base or {}
    n = len(switches)
    need = set()
    for i in range(n):
        for j in range(i + 1, n):
            for a in (0, 1):
                for b in (0, 1):
                    need.add((i, a, j, b))
    rows = []
    r = common.rng(0, 'pairwise', ','.join(switches))
    while need:
        best = None
        bestc = -1
        for _ in range(40):
            row = [r.randrange(2) for _ in range(n)]
            c = 0
            for i in range(n):
                for j in range(i + 1, n):
                    if (i, row[i], j, row[j]) in need:
                        c += 1
            if c > bestc:
                best, bestc = row, c
        for i in range(n):
            for j in range(i + 1, n):
                need.discard((i, best[i], j, best[j]))
        d = dict(base)
        for i, k in enumerate(switches):
            d[k] = bool(best[i])
        rows.append(d)
    return rows


def standard_sets():
    out = [('default', default()), ('all_off', all_off()), ('all_on', all_on())]
    for k in ALL_SWITCHES:
        out.append(('on:' + k, single_on(k)))
    for k in ALL_SWITCHES:
        out.append(('off:' + k, single_off_from_default(k)))
    return out


def safe_sets():
    """Option sets within the documented-safe options (subsets of the defaults)."""
    out = [('default', default())]
    base = {k: False for k in ALL_SWITCHES}
    base['preserve_shebang'] = True
    out.append(('safe_all_off', dict(base)))
    for k in SAFE_SWITCHES:
        d = default()
        d[k] = False
        out.append(('safe_off:' + k, d))
    for k in SAFE_SWITCHES:
        d = dict(base)
        d[k] = True
        out.append(('safe_on:' + k, d))
    for i, d in enumerate(pairwise(SAFE_SWITCHES, base)):
        out.append(('safe_pair%d' % i, d))
    return out


def classify(opts):
    """coarse class of an option set for coverage counting"""
    on = [k for k in ALL_SWITCHES if opts.get(k, DEFAULTS[k])]
    if opts == DEFAULTS:
        return 'default'
    if not on:
        return 'all_off'
    if len(on) == 1:
        return 'single:' + on[0]
    return 'mixed%d' % (len(on) // 4)
