# -*- coding: utf-8 -*-
"""Worker that runs inside *each target interpreter* (2.7, 3.6 ... 3.13): written in the common subset.

Protocol: JSON lines on stdin/stdout ({"batch": [case...]} -> {"batch": [result...]}).
Every case has "op" and "src" (text) or "src_b64" (bytes). python_minifier comes from PYTHONPATH (= /repo/src).
"""
from __future__ import print_function

import ast
import base64
import json
import os
import re
import signal
import sys
import traceback

PY2 = sys.version_info[0] == 2
IGNORED_FIELDS = ('kind', 'type_comment', 'type_ignores', 'lineno', 'col_offset', 'end_lineno', 'end_col_offset')

if not PY2:
    unicode = str


def sdump(node):
    """Strict dump: node classes, field names, identifiers, constants as (type, repr)."""
    if isinstance(node, ast.AST):
        parts = []
        for name in node._fields:
            if name in IGNORED_FIELDS:
                continue
            try:
                v = getattr(node, name)
            except AttributeError:
                continue
            parts.append(name + '=' + sdump(v))
        return node.__class__.__name__ + '(' + ','.join(parts) + ')'
    if isinstance(node, list):
        return '[' + ','.join(sdump(x) for x in node) + ']'
    try:
        return type(node).__name__ + ':' + repr(node)
    except ValueError:
        return type(node).__name__ + ':' + hex(node)      # int above the decimal conversion limit


def first_diff(a, b, path='root'):
    if type(a) is not type(b):
        return '%s: %s vs %s' % (path, short(a), short(b))
    if isinstance(a, ast.AST):
        for name in a._fields:
            if name in IGNORED_FIELDS:
                continue
            d = first_diff(getattr(a, name, None), getattr(b, name, None), path + '.' + name)
            if d:
                return d
        return None
    if isinstance(a, list):
        if len(a) != len(b):
            return '%s: list length %d vs %d' % (path, len(a), len(b))
        for i, (x, y) in enumerate(zip(a, b)):
            d = first_diff(x, y, '%s[%d]' % (path, i))
            if d:
                return d
        return None
    if repr(a) != repr(b):
        return '%s: %s:%r vs %s:%r' % (path, type(a).__name__, a, type(b).__name__, b)
    return None


def short(x):
    if isinstance(x, ast.AST):
        return x.__class__.__name__
    return '%s:%s' % (type(x).__name__, repr(x)[:60])


def skeleton_hash(node):
    """Hash of the node-class skeleton (distinct strict-AST shapes seen)."""
    acc = []

    def walk(n):
        if isinstance(n, ast.AST):
            acc.append(n.__class__.__name__)
            for name in n._fields:
                if name in IGNORED_FIELDS:
                    continue
                walk(getattr(n, name, None))
        elif isinstance(n, list):
            acc.append('[')
            for x in n:
                walk(x)
            acc.append(']')
        else:
            acc.append(type(n).__name__)
    walk(node)
    import hashlib
    return hashlib.sha1(' '.join(acc).encode('ascii', 'replace')).hexdigest()[:12]


def get_src(case):
    if 'src_b64' in case:
        return base64.b64decode(case['src_b64'])
    s = case['src']
    if PY2 and isinstance(s, unicode):
        try:
            s = s.encode('ascii')
        except UnicodeError:
            s = b'# -*- coding: utf-8 -*-\n' + s.encode('utf-8')
    return s


def all_off_kwargs(pm):
    kw = dict(remove_annotations=False, remove_pass=False, remove_literal_statements=False, combine_imports=False,
              hoist_literals=False, rename_locals=False, rename_globals=False, remove_object_base=False,
              convert_posargs_to_args=False, preserve_shebang=False, remove_asserts=False, remove_debug=False,
              remove_explicit_return_none=False, remove_builtin_exception_brackets=False, constant_folding=False)
    return kw


def make_kwargs(pm, opts):
    kw = {}
    ann = {}
    for k, v in opts.items():
        if k in ('remove_variable_annotations', 'remove_return_annotations', 'remove_argument_annotations',
                 'remove_class_attribute_annotations'):
            ann[k] = v
        else:
            if PY2 and isinstance(v, unicode):
                v = v.encode('ascii')
            elif PY2 and isinstance(v, list):
                v = [x.encode('ascii') if isinstance(x, unicode) else x for x in v]
            kw[str(k)] = v
    if ann:
        full = dict(remove_variable_annotations=True, remove_return_annotations=True, remove_argument_annotations=True,
                    remove_class_attribute_annotations=False)
        full.update(ann)
        kw['remove_annotations'] = pm.RemoveAnnotationsOptions(**full)
    return kw


def exc_info(e):
    tb = traceback.extract_tb(sys.exc_info()[2])
    site = ''
    for fr in reversed(tb):
        fn = fr[0]
        if 'python_minifier' in fn:
            site = '%s:%s' % (os.path.basename(fn), fr[2])
            break
    return {'type': type(e).__name__, 'msg': str(e)[:300], 'site': site}


# ---- ops ---------------------------------------------------------------------------------------------------
def has_bare_starred(tree):
    """a Starred node anywhere but in a display, an argument list or a base list (`if (*a):`, `x: (*a)`): never valid, never printable"""
    for n in ast.walk(tree):
        for f, v in ast.iter_fields(n):
            if isinstance(v, ast.AST) and v.__class__.__name__ == 'Starred':
                return True
            if isinstance(v, list) and f not in ('elts', 'args', 'bases'):
                for x in v:
                    if isinstance(x, ast.AST) and x.__class__.__name__ == 'Starred':
                        return True
    return False


def op_rt(case, pm):
    """C02: strict round trip of unparse() and of minify(all transforms off)."""
    src = get_src(case)
    try:
        tree = ast.parse(src)
    except Exception as e:
        return {'status': 'skip', 'reason': 'unparseable'}
    if has_bare_starred(tree):
        # not Python: pre-PEG parsers (and 3.9 / 3.10) accept a parenthesised bare starred expression `(*a)`; the compiler rejects it where it looks
        # (an unevaluated annotation inside a function is never looked at), and nothing can print it
        return {'status': 'skip', 'reason': 'parser accepts a bare (*a), compiler rejects it'}
    if True:
        try:
            compile(src, 'vf_case.py', 'exec', dont_inherit=True)
        except SyntaxError as e:
            # the message names whichever error the compiler meets first; look at the tree as well
            if 'starred' in str(e) or has_bare_starred(tree):
                return {'status': 'skip', 'reason': 'parser accepts a bare (*a), compiler rejects it'}
        except Exception:
            pass
    want = sdump(tree)
    res = {'status': 'held', 'skeleton': skeleton_hash(tree), 'violations': [], 'errors': []}
    modes = case.get('modes') or ['unparse', 'alloff']
    for mode in modes:
        try:
            if mode == 'unparse':
                out = pm.unparse(ast.parse(src))
            else:
                out = pm.minify(src, **all_off_kwargs(pm))
        except pm.UnstableMinification as e:
            res['violations'].append({'mode': mode, 'kind': 'UnstableMinification', 'detail': str(e.exception)[:300],
                                      'out': e.minified[:400] if isinstance(e.minified, (str, unicode)) else ''})
            continue
        except RecursionError if not PY2 else RuntimeError as e:
            res['errors'].append({'mode': mode, 'exc': exc_info(e), 'recursion': True})
            continue
        except Exception as e:
            res['errors'].append({'mode': mode, 'exc': exc_info(e)})
            continue
        try:
            if PY2 and isinstance(out, unicode):
                out_p = out.encode('utf-8')
                if not isinstance(src, unicode):
                    out_p = b'# -*- coding: utf-8 -*-\n' + out_p
            else:
                out_p = out
            tree2 = ast.parse(out_p)
        except Exception as e:
            res['violations'].append({'mode': mode, 'kind': 'output-unparseable', 'detail': str(e)[:200], 'out': out[:400]})
            continue
        if sdump(tree2) != want:
            res['violations'].append({'mode': mode, 'kind': 'tree-differs', 'detail': first_diff(tree, tree2), 'out': out[:400]})
    if res['violations']:
        res['status'] = 'violation'
    return res


def ast_depth(tree):
    """nesting depth of a tree, computed without recursion"""
    depth = 0
    level = [tree]
    while level:
        depth += 1
        nxt = []
        for n in level:
            nxt.extend(ast.iter_child_nodes(n))
        level = nxt
    return depth


def op_mc(case, pm):
    """C08: compilable source => minify returns and its output compiles; unparseable => same exception type."""
    src = get_src(case)
    opts = case.get('opts') or {}
    fn = 'vf_case.py'
    parse_exc = None
    try:
        tree = ast.parse(src)
    except Exception as e:
        parse_exc = e
    res = {'status': 'held', 'counters': {}}
    if parse_exc is None:
        try:
            compile(src, fn, 'exec', dont_inherit=True)
        except Exception as e:
            return {'status': 'skip', 'reason': 'parses-but-does-not-compile'}
        if has_bare_starred(tree):
            return {'status': 'skip', 'reason': 'parser accepts a bare (*a), compiler rejects it'}
        res['skeleton'] = skeleton_hash(tree)
    try:
        out = pm.minify(src, **make_kwargs(pm, opts))
    except Exception as e:
        if parse_exc is not None:
            if type(e) is type(parse_exc):
                res['kind'] = 'invalid-rejected'
                return res
            return {'status': 'violation', 'kind': 'wrong-exception-for-invalid', 'exc': exc_info(e),
                    'want': type(parse_exc).__name__}
        rec = isinstance(e, RuntimeError) and 'recursion' in str(e).lower()
        if rec:
            # reported with the nesting depth of the input: the check decides (known finding for deep inputs, violation for shallow ones)
            return {'status': 'violation', 'kind': 'raised', 'exc': exc_info(e), 'ast_depth': ast_depth(tree), 'recursion_limit': sys.getrecursionlimit()}
        return {'status': 'violation', 'kind': 'raised', 'exc': exc_info(e),
                'out': getattr(e, 'minified', '')[:400] if isinstance(getattr(e, 'minified', ''), (str, unicode)) else ''}
    if parse_exc is not None:
        return {'status': 'violation', 'kind': 'invalid-accepted', 'want': type(parse_exc).__name__}
    if not isinstance(out, (str, unicode)):
        return {'status': 'violation', 'kind': 'not-a-string', 'detail': type(out).__name__}
    try:
        o = out
        if PY2 and isinstance(o, unicode):
            o = b'# -*- coding: utf-8 -*-\n' + o.encode('utf-8')
        compile(o, fn, 'exec', dont_inherit=True)
    except Exception as e:
        return {'status': 'violation', 'kind': 'output-does-not-compile', 'detail': '%s: %s' % (type(e).__name__, str(e)[:200]),
                'out': out[:600]}
    res['kind'] = 'ok'
    res['changed'] = (out != src)
    if case.get('want_out'):
        res['out'] = out
    return res


def _value_key(v):
    if isinstance(v, (list, tuple)):
        return type(v).__name__ + '[' + ','.join(_value_key(x) for x in v) + ']'
    if isinstance(v, dict):
        return 'dict{' + ','.join(sorted(_value_key(k) + '=' + _value_key(x) for k, x in v.items())) + '}'
    try:
        if isinstance(v, int) and not isinstance(v, bool) and v.bit_length() > 9000:
            return 'int:bits%d:%d' % (v.bit_length(), v % 2305843009213693951)
    except Exception:
        pass
    try:
        return '%s:%r' % (type(v).__name__, v)
    except Exception as e:
        return '%s:unreprable:%s' % (type(v).__name__, type(e).__name__)


def _eval_stmt_value(text):
    """Evaluate `V = <expr>` style programs: run, return (kind, key of V)."""
    ns = {}
    try:
        exec(compile(text, 'fold_case', 'exec', dont_inherit=True), ns)
    except Exception as e:
        return ('raise', type(e).__name__)
    if 'V' not in ns:
        return ('novalue', '')
    v = ns['V']
    if callable(v) and not isinstance(v, type):
        try:
            v = v()
        except Exception as e:
            return ('raise', type(e).__name__)
    return ('value', _value_key(v))


def op_fold(case, pm):
    """C07: end-to-end value of V in the program before/after folding, length rule."""
    src = get_src(case)
    try:
        compile(src, 'fold_case', 'exec', dont_inherit=True)
    except Exception:
        return {'status': 'skip', 'reason': 'uncompilable'}
    off = all_off_kwargs(pm)
    on = dict(off)
    on['constant_folding'] = True
    res = {'status': 'held', 'violations': []}
    try:
        out_off = pm.minify(src, **off)
        out_on = pm.minify(src, **on)
    except Exception as e:
        return {'status': 'error', 'exc': exc_info(e)}
    res['folded'] = out_on != out_off
    res['out_on'] = out_on[:300]
    res['out_off'] = out_off[:300]
    if len(out_on) > len(out_off):
        res['violations'].append({'kind': 'longer', 'detail': '%d > %d' % (len(out_on), len(out_off))})
    if case.get('evaluate', True):
        a = _eval_stmt_value(src if not (PY2 and isinstance(src, unicode)) else src.encode('utf-8'))
        b = _eval_stmt_value(out_on if not (PY2 and isinstance(out_on, unicode)) else out_on.encode('utf-8'))
        res['orig'] = list(a)
        if a != b:
            res['violations'].append({'kind': 'value-differs', 'detail': '%r -> %r' % (a, b)})
        if a[0] == 'raise' and res['folded'] and case.get('closed'):
            res['violations'].append({'kind': 'raising-expression-rewritten', 'detail': repr(a)})
        if a[0] == 'value' and ('nan' in a[1]) and res['folded'] and case.get('closed'):
            res['violations'].append({'kind': 'nan-expression-rewritten', 'detail': repr(a)})
    if case.get('interplay'):
        # the same program under the default options (folding next to hoisting and renaming): value of V again
        try:
            out_d = pm.minify(src)
        except Exception as e:
            return {'status': 'error', 'exc': exc_info(e)}
        a = _eval_stmt_value(src if not (PY2 and isinstance(src, unicode)) else src.encode('utf-8'))
        b = _eval_stmt_value(out_d if not (PY2 and isinstance(out_d, unicode)) else out_d.encode('utf-8'))
        res['interplay_hoisted'] = out_d.count('=True') + out_d.count('=False') > 0 and out_d != out_on
        if a != b:
            res['violations'].append({'kind': 'value-differs-under-default-options', 'detail': '%r -> %r | %s' % (a, b, out_d[:300])})
    if res['violations']:
        res['status'] = 'violation'
    return res


def op_compile(case, pm):
    src = get_src(case)
    try:
        compile(src, 'vf_case.py', 'exec', dont_inherit=True)
        return {'status': 'held'}
    except Exception as e:
        return {'status': 'fail', 'detail': '%s: %s' % (type(e).__name__, str(e)[:200])}


class CaseTimeout(BaseException):
    pass


def _on_alarm(signum, frame):
    raise CaseTimeout()


def op_valeq(case, pm):
    """value of V (type names and reprs the program itself collects) before / after minify(opts), in this interpreter"""
    src = get_src(case)
    try:
        compile(src, 'valeq_case', 'exec', dont_inherit=True)
    except Exception:
        return {'status': 'skip', 'reason': 'uncompilable'}
    try:
        out = pm.minify(src, **make_kwargs(pm, case.get('opts') or {}))
    except Exception as e:
        return {'status': 'error', 'exc': exc_info(e)}
    a = _eval_stmt_value(src if not (PY2 and isinstance(src, unicode)) else src.encode('utf-8'))
    b = _eval_stmt_value(out if not (PY2 and isinstance(out, unicode)) else out.encode('utf-8'))
    res = {'status': 'held', 'changed': out != src, 'out': out[:400], 'violations': []}
    if a != b:
        res['status'] = 'violation'
        res['violations'].append({'kind': 'value-differs', 'detail': '%r -> %r' % (a[1][:300] if len(a) > 1 else a, b[1][:300] if len(b) > 1 else b)})
    return res


def _identifiers(tree):
    out = []
    for n in ast.walk(tree):
        for f in ('id', 'arg', 'name', 'asname', 'attr', 'rest'):
            v = getattr(n, f, None)
            if isinstance(v, (str, unicode)) and f in getattr(n, '_fields', ()):
                out.append(v)
        if isinstance(n, (ast.Global,)) or n.__class__.__name__ == 'Nonlocal':
            out.extend(n.names)
        if n.__class__.__name__ == 'arguments':
            for f in ('vararg', 'kwarg'):
                v = getattr(n, f, None)
                if isinstance(v, (str, unicode)):
                    out.append(v)
    return out


def op_frozen(case, pm):
    """C09 in this interpreter: a tainted module keeps every identifier and gets no new statement"""
    src = get_src(case)
    try:
        tree = ast.parse(src)
        compile(src, 'frozen_case', 'exec', dont_inherit=True)
    except Exception:
        return {'status': 'skip', 'reason': 'uncompilable here'}
    try:
        out = pm.minify(src, **make_kwargs(pm, case.get('opts') or {}))
        o = out
        if PY2 and isinstance(o, unicode):
            o = o.encode('utf-8')
        tree2 = ast.parse(o)
    except Exception as e:
        return {'status': 'error', 'exc': exc_info(e)}
    a, b = _identifiers(tree), _identifiers(tree2)
    res = {'status': 'held', 'violations': [], 'out': out[:400]}
    if sorted(a) != sorted(b):
        gone = sorted(set(a) - set(b))[:6]
        new = sorted(set(b) - set(a))[:6]
        res['status'] = 'violation'
        res['violations'].append({'kind': 'identifiers-changed', 'detail': 'names only in the input %r, names only in the output %r' % (gone, new)})
    return res


def op_preserved(case, pm):
    """C10 in this interpreter: every identifier spelled like a name the caller (or a literal __all__) asks to keep is still there, as often as before.
    The programs give each such name a single role, and the option sets remove no statements, so occurrences cannot legitimately disappear."""
    src = get_src(case)
    try:
        tree = ast.parse(src)
        compile(src, 'preserved_case', 'exec', dont_inherit=True)
    except Exception:
        return {'status': 'skip', 'reason': 'uncompilable here'}
    try:
        out = pm.minify(src, **make_kwargs(pm, case.get('opts') or {}))
        o = out
        if PY2 and isinstance(o, unicode):
            o = o.encode('utf-8')
        tree2 = ast.parse(o)
    except Exception as e:
        return {'status': 'error', 'exc': exc_info(e)}
    a, b = _identifiers(tree), _identifiers(tree2)
    res = {'status': 'held', 'violations': [], 'out': out[:600], 'changed': sorted(a) != sorted(b)}
    for name in case['expect']:
        if b.count(name) < a.count(name):
            res['status'] = 'violation'
            res['violations'].append({'kind': 'preserved-name-renamed', 'detail': '%s occurs %d times in the input and %d times in the output' % (name, a.count(name), b.count(name))})
    return res


def op_minify(case, pm):
    """just the output of minify() in this interpreter (decided elsewhere: the 3.12 matcher compares it with the input)"""
    src = get_src(case)
    try:
        compile(src, 'foreign_case', 'exec', dont_inherit=True)
    except Exception:
        return {'status': 'skip', 'reason': 'uncompilable here'}
    try:
        out = pm.minify(src, **make_kwargs(pm, case.get('opts') or {}))
    except Exception as e:
        return {'status': 'error', 'exc': exc_info(e)}
    if PY2 and not isinstance(out, unicode):
        out = out.decode('utf-8')
    return {'status': 'ok', 'out': out}


def op_size_pair(case, pm):
    """C17 in this interpreter: lengths of minify(base + option) and minify(base) for the all-off and the default base"""
    src = get_src(case)
    try:
        compile(src, 'size_case', 'exec', dont_inherit=True)
    except Exception:
        return {'status': 'skip', 'reason': 'uncompilable here'}
    option = case['option']
    res = {'status': 'held', 'violations': [], 'pairs': 0, 'changed': 0}
    for base_name in ('all_off', 'default'):
        on = all_off_kwargs(pm) if base_name == 'all_off' else {}
        off = dict(on)
        on[str(option)] = True
        off[str(option)] = False
        if option == 'remove_annotations' and base_name == 'all_off':
            continue
        try:
            a = pm.minify(src, **on)
            b = pm.minify(src, **off)
        except Exception:
            continue
        res['pairs'] += 1
        if a != b:
            res['changed'] += 1
        if len(a) > len(b):
            res['violations'].append({'kind': 'longer', 'base': base_name, 'detail': '%s on (%s base) gives %d > %d: %r vs %r' % (option, base_name, len(a), len(b), a[:200], b[:200])})
    if res['violations']:
        res['status'] = 'violation'
    return res


def op_shebang(case, pm):
    """C16 in this interpreter: minify(bytes) and minify(text) of a source with a shebang line: no exception, first line reproduced, same result for both"""
    b = base64.b64decode(case['data_b64'])
    enc = case.get('encoding') or 'utf-8'
    try:
        compile(b, 'shebang_case', 'exec', dont_inherit=True)
    except Exception:
        return {'status': 'skip', 'reason': 'uncompilable here'}
    first = b.split(b'\n')[0].rstrip(b'\r').decode(enc)
    res = {'status': 'held', 'violations': [], 'checks': 0}
    outs = []
    if PY2 and b'coding' not in b'\n'.join(b.split(b'\n')[:2]):
        try:
            b.decode('ascii')
        except UnicodeError:
            # a python 2 source file with non-ASCII bytes and no coding cookie is rejected by the interpreter (compile() of a str is more lenient)
            return {'status': 'skip', 'reason': 'python 2: non-ASCII source without a cookie'}
    for label, source in (('bytes', b), ('text', b.decode(enc))):
        if PY2 and label == 'text' and b'coding' in b.split(b'\n')[0] + b.split(b'\n')[1 if b.count(b'\n') else 0]:
            continue        # python 2 rejects unicode source text that carries a coding cookie
        try:
            out = pm.minify(source, preserve_shebang=True)
        except Exception as e:
            res['violations'].append({'kind': 'raised', 'detail': 'minify(%s) raised %s: %s' % (label, type(e).__name__, str(e)[:120])})
            continue
        if not isinstance(out, unicode):
            out = out.decode('utf-8')
        res['checks'] += 1
        outs.append(out)
        if out.split(u'\n')[0] != first:
            res['violations'].append({'kind': 'shebang-differs', 'detail': '%s input: first output line %r, first source line %r' % (label, out.split(u'\n')[0][:60], first[:60])})
    if len(outs) == 2 and outs[0] != outs[1]:
        res['violations'].append({'kind': 'bytes-vs-text', 'detail': 'minify(bytes) != minify(text): %r vs %r' % (outs[0][:80], outs[1][:80])})
    if res['violations']:
        res['status'] = 'violation'
    return res


# ---- C01 cross-interpreter layer: run P and minify(P) in this interpreter, compare what each prints / raises / leaves in its namespace
class _Sink(object):
    def __init__(self):
        self.parts = []
        self.n = 0

    def write(self, x):
        if PY2 and isinstance(x, unicode):
            x = x.encode('utf-8')
        elif not PY2 and not isinstance(x, str):
            raise TypeError('write() argument must be str')
        self.n += len(x)
        if self.n < 200000:
            self.parts.append(x)
        return len(x)

    def flush(self):
        pass

    def isatty(self):
        return False

    def text(self):
        return ''.join(self.parts)


_ADDR = re.compile(r' at 0x[0-9a-fA-F]+')
_REFLECTIVE = ('<locals>', ' object at 0x', ' instance at 0x', '<class __main__.', '<unbound method',  '<function ', '<bound method', '<lambda>', '<code object', '<frame ', '<cell ', 'Traceback (most recent')


def _summarise(v, depth=0):
    t = type(v).__name__
    if v is None or isinstance(v, (bool, int, float, complex, str, bytes)) or (PY2 and isinstance(v, (long, unicode))):
        return _value_key(v)
    if isinstance(v, (list, tuple, set, frozenset)) and depth < 3:
        items = [_summarise(x, depth + 1) for x in v]
        if isinstance(v, (set, frozenset)):
            items.sort()
        return t + '[' + ','.join(items[:50]) + ']'
    if isinstance(v, dict) and depth < 3:
        return 'dict{' + ','.join(sorted(_summarise(k, depth + 1) + '=' + _summarise(x, depth + 1) for k, x in list(v.items())[:50])) + '}'
    if isinstance(v, type) or t == 'classobj':
        # the name of a class defined inside a function is the name of a (renamable) local: a documented reflective view
        q = getattr(v, '__qualname__', None)
        if q is not None and q == getattr(v, '__name__', None):
            return 'class:' + q
        return 'class'
    if t == 'module':
        return 'module:' + getattr(v, '__name__', '?')
    return 'instance-of:' + t


def _run_simple(text, fname):
    sink = _Sink()
    ns = {'__name__': '__main__', '__builtins__': __builtins__, '__file__': fname}
    old = sys.stdout, sys.stderr
    outcome = 'ok'
    saved_path = list(sys.path)
    saved_mods = set(sys.modules)
    try:
        try:
            code = compile(text, fname, 'exec', dont_inherit=True)
        except Exception as e:
            return {'outcome': 'compile-error:' + type(e).__name__, 'stdout': '', 'namespace': {}}
        sys.stdout = sink
        sys.stderr = _Sink()
        try:
            exec(code, ns)
        except CaseTimeout:
            raise
        except SystemExit as e:
            outcome = 'exit:%r' % (e.code,)
        except BaseException as e:
            if isinstance(e, KeyboardInterrupt):
                raise
            outcome = 'raise:' + type(e).__name__
    finally:
        sys.stdout, sys.stderr = old
        sys.path[:] = saved_path
        for m in set(sys.modules) - saved_mods:
            if not m.startswith(('encodings', 'python_minifier')):
                pass
    pub = {}
    for k, v in list(ns.items()):
        if not k.startswith('_'):
            try:
                pub[k] = _summarise(v)
            except Exception as e:
                pub[k] = 'unsummarisable:' + type(e).__name__
    return {'outcome': outcome, 'stdout': _ADDR.sub(' at 0x', sink.text()), 'namespace': pub}


def _run_diff(a, b):
    d = []
    if a['outcome'] != b['outcome']:
        d.append('outcome %s -> %s' % (a['outcome'], b['outcome']))
    if a['stdout'] != b['stdout']:
        la, lb = a['stdout'].split('\n'), b['stdout'].split('\n')
        for i in range(max(len(la), len(lb))):
            x = la[i] if i < len(la) else '<missing>'
            y = lb[i] if i < len(lb) else '<missing>'
            if x != y:
                d.append('stdout line %d: %r -> %r' % (i + 1, x[:160], y[:160]))
                break
    if a['namespace'] != b['namespace']:
        ks = sorted(k for k in set(a['namespace']) | set(b['namespace']) if a['namespace'].get(k) != b['namespace'].get(k))
        d.append('public namespace %s: %r -> %r' % (ks[0], a['namespace'].get(ks[0], '<absent>')[:120], b['namespace'].get(ks[0], '<absent>')[:120]))
    return d


def op_run(case, pm):
    src = get_src(case)
    text = src
    if sys.version_info[:2] == (3, 10):
        # CPython 3.10 does not set up __annotations__ when the only annotated assignments of a module / class body sit inside a match statement:
        # the *original* raises NameError there, an output without the annotation does not. Not the minifier's doing.
        try:
            t310 = ast.parse(src)
            if any(isinstance(n, ast.Match) and any(isinstance(m, ast.AnnAssign) for m in ast.walk(n)) for n in ast.walk(t310)):
                return {'status': 'skip', 'reason': 'CPython 3.10 bug: annotated assignment inside match'}
        except Exception:
            pass
    a = _run_simple(text, 'prog.py')
    if a['outcome'].startswith('compile-error'):
        return {'status': 'skip', 'reason': 'uncompilable here'}
    if any(m in a['stdout'] for m in _REFLECTIVE + (("<class '__main__.", '__main__.') if PY2 else ())):      # python 2 has no qualified names: a local class prints like a global one
        return {'status': 'skip', 'reason': 'reflective output'}
    a2 = _run_simple(text, 'prog.py')
    if _run_diff(a, a2):
        return {'status': 'skip', 'reason': 'original not self-stable'}
    res = {'status': 'held', 'violations': [], 'variants': 0, 'changed': 0, 'stdout_lines': a['stdout'].count('\n'), 'minify_raised': 0}
    for name, opts in case['optsets']:
        try:
            out = pm.minify(src, **make_kwargs(pm, opts))
        except CaseTimeout:
            raise
        except Exception as e:
            res['minify_raised'] += 1
            continue
        q = _run_simple(out if not (PY2 and isinstance(out, unicode)) else out.encode('utf-8'), 'prog.py')
        if q['outcome'].startswith('compile-error'):
            res['minify_raised'] += 1
            continue
        res['variants'] += 1
        if out != src:
            res['changed'] += 1
        d = _run_diff(a, q)
        if d:
            q2 = _run_simple(out if not (PY2 and isinstance(out, unicode)) else out.encode('utf-8'), 'prog.py')
            if not _run_diff(q, q2):
                res['violations'].append({'kind': 'behaviour-differs', 'optset': name, 'opts': opts, 'detail': '; '.join(d), 'out': out[:1500]})
    if res['violations']:
        res['status'] = 'violation'
        res['violations'] = res['violations'][:3]
    return res


OPS = {'run': op_run, 'shebang': op_shebang, 'size_pair': op_size_pair, 'minify': op_minify, 'preserved': op_preserved, 'frozen': op_frozen, 'rt': op_rt, 'mc': op_mc, 'fold': op_fold, 'compile': op_compile, 'valeq': op_valeq}


def main():
    import python_minifier as pm
    sys.setrecursionlimit(3000)
    proto = os.fdopen(os.dup(1), 'wb', 0)
    os.dup2(2, 1)
    stdin = sys.stdin if PY2 else sys.stdin.buffer
    while True:
        line = stdin.readline()
        if not line:
            break
        msg = json.loads(line.decode('utf-8'))
        out = []
        for case in msg['batch']:
            try:
                signal.signal(signal.SIGALRM, _on_alarm)
                signal.alarm(int(case.get('case_timeout', 12)))
                try:
                    r = OPS[case['op']](case, pm)
                finally:
                    signal.alarm(0)
            except CaseTimeout:
                r = {'status': 'inconclusive', 'reason': 'case-timeout', 'timeout_case': True}
            except BaseException as e:
                if isinstance(e, (KeyboardInterrupt, SystemExit)):
                    raise
                r = {'inconclusive': 'harness-error %s: %s' % (type(e).__name__, str(e)[:200]),
                     'trace': traceback.format_exc()[-1200:]}
            out.append(r)
        proto.write((json.dumps({'batch': out}) + '\n').encode('utf-8'))
        proto.flush()


if __name__ == '__main__':
    main()
