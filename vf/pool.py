"""Own process pool: Popen workers speaking JSON lines, per-message watchdog, respawn on death.

multiprocessing.Pool is not used because it hangs forever when a child dies.
A worker is `<python> -m vf.worker <module>:<function>` (or any command line speaking the protocol):
  stdin : one JSON object per line (a case or a batch {"batch": [...]})
  stdout: one JSON object per line (the result; for a batch {"batch": [...]})
A watchdog firing kills the worker; the cases in flight are reported as {"inconclusive": "watchdog"}.
"""
import json
import os
import queue
import subprocess
import sys
import threading
import time

from vf import common


class _Worker(object):
    def __init__(self, cmd, env):
        self.cmd = cmd
        self.env = env
        self.proc = None
        self.spawn()

    def spawn(self):
        self.proc = subprocess.Popen(self.cmd, stdin=subprocess.PIPE, stdout=subprocess.PIPE, stderr=subprocess.PIPE,
                                     env=self.env, cwd=common.VERIF, bufsize=-1)
        self._stderr = []
        t = threading.Thread(target=self._drain, args=(self.proc, self._stderr), daemon=True)
        t.start()

    @staticmethod
    def _drain(proc, sink):
        try:
            for line in proc.stderr:
                if len(sink) < 200:
                    sink.append(line.decode('utf-8', 'replace'))
        except Exception:
            pass

    def kill(self):
        try:
            self.proc.kill()
        except Exception:
            pass
        try:
            self.proc.wait(timeout=5)
        except Exception:
            pass

    def request(self, msg, timeout):
        """Send one message, wait for one line. Returns (result or None, reason)."""
        data = (json.dumps(msg) + '\n').encode('utf-8')
        timer = threading.Timer(timeout, self.kill)
        timer.daemon = True
        timer.start()
        try:
            try:
                self.proc.stdin.write(data)
                self.proc.stdin.flush()
            except Exception:
                return None, 'worker-died-on-write'
            buf = b''
            while True:
                chunk = self.proc.stdout.readline()
                if not chunk:
                    fired = not timer.is_alive()
                    return None, ('watchdog' if fired else 'worker-died rc=%s stderr=%s' % (
                        self.proc.poll(), ''.join(self._stderr[-5:])[-400:]))
                buf += chunk
                if buf.endswith(b'\n'):
                    break
            try:
                return json.loads(buf.decode('utf-8')), None
            except Exception as e:
                return None, 'bad-reply %r' % (e,)
        finally:
            timer.cancel()


def run_cases(cases, target, nworkers=None, python=None, timeout=20.0, batch=1, env=None, on_result=None,
              cmd=None, deadline=None, oneshot=False):
    """Run `cases` (iterable of JSON-able dicts) through workers.

    target: "module:function" executed by vf.worker; or give an explicit cmd list.
    Returns list of (case, result) in completion order. result is a dict; watchdog / death give
    {"inconclusive": reason}. `deadline` (time.time() value) stops dispatching new cases (those are not run).
    """
    nworkers = nworkers or min(16, os.cpu_count() or 4)
    python = python or common.VENV_PY
    if cmd is None:
        cmd = [python, '-m', 'vf.worker', target]
    env = env or common.clean_env()
    q = queue.Queue()
    n = 0
    cur = []
    for c in cases:
        cur.append(c)
        if len(cur) >= batch:
            q.put(cur)
            cur = []
        n += 1
    if cur:
        q.put(cur)
    results = []
    lock = threading.Lock()
    skipped = [0]
    timeouts = [0]
    MAX_TIMEOUTS = 60       # a tree on which the code under test hangs everywhere: stop feeding it, report inconclusive

    def loop():
        w = None
        try:
            while True:
                try:
                    b = q.get_nowait()
                except queue.Empty:
                    return
                hanging = timeouts[0] > MAX_TIMEOUTS and timeouts[0] * 2 > len(results)     # most cases time out: the tree hangs
                if (deadline is not None and time.time() > deadline) or hanging:
                    with lock:
                        skipped[0] += len(b)
                        if hanging:
                            for c in b:
                                results.append((c, {'status': 'inconclusive', 'reason': 'aborted-after-many-timeouts'}))
                                if on_result:
                                    on_result(c, {'status': 'inconclusive', 'reason': 'aborted-after-many-timeouts'})
                    continue
                if w is None:
                    w = _Worker(cmd, env)
                res, reason = w.request({'batch': b}, timeout + 1.5 * len(b))
                if res is None:
                    w.kill()
                    w = None
                    if len(b) > 1 and reason == 'watchdog' or (len(b) > 1 and reason and reason.startswith('worker-died')):
                        # isolate the culprit: re-run one by one
                        out = []
                        for c in b:
                            if w is None:
                                w = _Worker(cmd, env)
                            r1, reason1 = w.request({'batch': [c]}, timeout)
                            if r1 is None:
                                w.kill()
                                w = None
                                out.append({'inconclusive': reason1})
                            else:
                                out.append(r1['batch'][0])
                    else:
                        out = [{'inconclusive': reason} for _ in b]
                else:
                    out = res['batch']
                if oneshot and w is not None:
                    # a fresh process per message
                    try:
                        w.proc.stdin.close()
                    except Exception:
                        pass
                    w.kill()
                    w = None
                with lock:
                    for c, r in zip(b, out):
                        if isinstance(r, dict) and ('watchdog' in str(r.get('inconclusive', '')) or 'case-timeout' in str(r.get('reason', ''))):
                            timeouts[0] += 1
                        results.append((c, r))
                        if on_result:
                            on_result(c, r)
        finally:
            if w is not None:
                try:
                    w.proc.stdin.close()
                except Exception:
                    pass
                w.kill()

    threads = [threading.Thread(target=loop, daemon=True) for _ in range(min(nworkers, max(1, q.qsize())))]
    for t in threads:
        t.start()
    for t in threads:
        t.join()
    return results, skipped[0]
