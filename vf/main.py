"""./check <Cnn> [--tier quick|thorough] [--replay <file>]"""
import argparse
import importlib
import os
import sys

from vf import common


def main():
    ap = argparse.ArgumentParser()
    ap.add_argument('prop')
    ap.add_argument('--tier', default=os.environ.get('VERIF_TIER', 'quick'), choices=['quick', 'thorough'])
    ap.add_argument('--replay', default=None)
    ap.add_argument('--seed', type=int, default=None)
    a = ap.parse_args()
    seed = a.seed if a.seed is not None else common.env_seed()
    mod = importlib.import_module('vf.props.' + a.prop)
    if a.replay:
        rc = mod.replay(a.replay)
    else:
        rc = mod.main(a.tier, seed)
    sys.stdout.flush()
    sys.exit(rc)


if __name__ == '__main__':
    main()
