"""Generic worker: python -m vf.worker module:function  -- JSON lines in, JSON lines out."""
import importlib
import json
import os
import signal
import sys
import traceback


class CaseTimeout(BaseException):
    pass


def _on_alarm(signum, frame):
    raise CaseTimeout()


def main():
    target = sys.argv[1]
    modname, fname = target.split(':')
    # keep the protocol channel clean: anything the case prints goes to stderr
    proto = os.fdopen(os.dup(1), 'wb', 0)
    os.dup2(2, 1)
    sys.stdout = sys.stderr
    mod = importlib.import_module(modname)
    fn = getattr(mod, fname)
    sys.setrecursionlimit(5000)
    for line in sys.stdin.buffer:
        msg = json.loads(line.decode('utf-8'))
        out = []
        for case in msg['batch']:
            try:
                signal.signal(signal.SIGALRM, _on_alarm)
                signal.alarm(int(case.get('timeout', 20)) if isinstance(case, dict) else 20)
                try:
                    r = fn(case)
                finally:
                    signal.alarm(0)
            except CaseTimeout:
                r = {'status': 'inconclusive', 'reason': 'case-timeout (watchdog: the call did not return in time)'}
            except BaseException as e:  # harness failure is never a property violation
                if isinstance(e, (KeyboardInterrupt, SystemExit)):
                    raise
                r = {'inconclusive': 'harness-error %s: %s' % (type(e).__name__, e),
                     'trace': traceback.format_exc()[-1500:]}
            out.append(r)
        proto.write((json.dumps({'batch': out}) + '\n').encode('utf-8'))
        proto.flush()


if __name__ == '__main__':
    main()
