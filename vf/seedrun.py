"""Run checks against a seeded change kept under /verif/seeded/<id>/ (patch.diff, demo.py, meta.json).

python -m vf.seedrun <seed dir> [--props=C03,C01] [--tier=quick]
The patch is applied to a scratch copy of /repo/src (VF_REPO override); /repo itself is not touched.
"""
import json
import os
import shutil
import subprocess
import sys
import tempfile

from vf import common


def run_seed(seed_dir, props, tier="quick", check_demo=True):
    seed_dir = os.path.abspath(seed_dir)
    tmp = tempfile.mkdtemp(prefix='vf_seed_')
    out = {'seed': os.path.basename(seed_dir.rstrip('/'))}
    try:
        shutil.copytree('/repo/src', os.path.join(tmp, 'src'))
        p = subprocess.run(['patch', '-p1', '-s', '-d', tmp, '-i', os.path.abspath(os.path.join(seed_dir, 'patch.diff'))], stdout=subprocess.PIPE, stderr=subprocess.STDOUT)
        out['patch_applies'] = p.returncode == 0
        if p.returncode != 0:
            out['patch_output'] = p.stdout.decode()[-300:]
            return out
        if check_demo and os.path.exists(os.path.join(seed_dir, 'demo.py')):
            env = common.clean_env()
            env['PYTHONPATH'] = os.path.join(tmp, 'src')
            d1 = subprocess.run([common.VENV_PY, '-W', 'ignore', os.path.join(seed_dir, 'demo.py')], env=env, stdout=subprocess.PIPE, stderr=subprocess.STDOUT, timeout=300, cwd=tmp)
            env['PYTHONPATH'] = '/repo/src'
            d0 = subprocess.run([common.VENV_PY, '-W', 'ignore', os.path.join(seed_dir, 'demo.py')], env=env, stdout=subprocess.PIPE, stderr=subprocess.STDOUT, timeout=300, cwd=tmp)
            out['demo_fails_with_patch'] = d1.returncode != 0
            out['demo_passes_without'] = d0.returncode == 0
            if d0.returncode != 0:
                out['demo_without_output'] = d0.stdout.decode('utf-8', 'replace')[-400:]
        for prop in props:
            env = dict(os.environ)
            env['VF_REPO'] = tmp
            env['VF_EVIDENCE_DIR'] = os.path.join(tmp, 'evidence')
            r = subprocess.run([os.path.join(common.VERIF, 'check'), prop, '--tier', tier], env=env, stdout=subprocess.PIPE, stderr=subprocess.STDOUT, timeout=7200)
            text = r.stdout.decode('utf-8', 'replace')
            first = [l.strip()[:260] for l in text.split('\n') if l.startswith('  mech=')][:2]
            out[prop] = {'rc': r.returncode, 'fired': r.returncode == 1 and 'VIOLATION property=' in text, 'first': first}
    finally:
        shutil.rmtree(tmp, ignore_errors=True)
    return out


def main():
    args = [a for a in sys.argv[1:] if not a.startswith('--')]
    props = None
    tier = 'quick'
    for a in sys.argv[1:]:
        if a.startswith('--props='):
            props = a.split('=')[1].split(',')
        if a.startswith('--tier='):
            tier = a.split('=')[1]
    for d in args:
        meta = {}
        mp = os.path.join(d, 'meta.json')
        if os.path.exists(mp):
            meta = json.load(open(mp))
        ps = props or meta.get('checks_expected_to_fire') or [meta.get('property')]
        print(json.dumps(run_seed(d, ps, tier), indent=1))
        sys.stdout.flush()


if __name__ == '__main__':
    main()
