"""Tiny line-based delta debugger used for triage (not by the checks themselves)."""
import ast


def _compiles(src):
    try:
        compile(src, 'r', 'exec')
        return True
    except Exception:
        return False


def reduce_lines(src, pred, need_compile=True, rounds=6):
    lines = src.split('\n')

    def ok(ls):
        s = '\n'.join(ls) + '\n'
        if need_compile and not _compiles(s):
            return False
        try:
            return bool(pred(s))
        except Exception:
            return False
    assert ok(lines), 'predicate does not hold on the original'
    for _ in range(rounds):
        changed = False
        n = len(lines)
        chunk = max(1, n // 2)
        while chunk >= 1:
            i = 0
            while i < len(lines):
                cand = lines[:i] + lines[i + chunk:]
                if cand and ok(cand):
                    lines = cand
                    changed = True
                else:
                    # try replacing a block by pass with the same indentation
                    if chunk == 1 and lines[i].strip() not in ('pass', ''):
                        ind = lines[i][:len(lines[i]) - len(lines[i].lstrip())]
                        cand = lines[:i] + [ind + 'pass'] + lines[i + 1:]
                        if ok(cand):
                            lines = cand
                            changed = True
                    i += chunk
            chunk //= 2
        # dedent attempt: remove a compound header and dedent its body
        i = 0
        while i < len(lines):
            l = lines[i]
            if l.rstrip().endswith(':'):
                ind = len(l) - len(l.lstrip())
                j = i + 1
                while j < len(lines) and (not lines[j].strip() or len(lines[j]) - len(lines[j].lstrip()) > ind):
                    j += 1
                body = lines[i + 1:j]
                if body:
                    first = len(body[0]) - len(body[0].lstrip())
                    ded = [b[first - ind:] if len(b) - len(b.lstrip()) >= first else b for b in body]
                    cand = lines[:i] + ded + lines[j:]
                    if ok(cand):
                        lines = cand
                        changed = True
                        continue
            i += 1
        if not changed:
            break
    return '\n'.join(lines) + '\n'


def reduce_ast(src, pred, max_iter=2000):
    """Replace sub-expressions by a plain name / drop list elements while pred(src) still holds."""
    import copy

    def ok(tree):
        try:
            s = ast.unparse(tree) + '\n'
            compile(s, 'r', 'exec')
            return bool(pred(s)), s
        except Exception:
            return False, None
    tree = ast.parse(src)
    good, cur = ok(tree)
    assert good, 'predicate does not hold on ast.unparse(original)'
    it = 0
    changed = True
    while changed and it < max_iter:
        changed = False
        nodes = [n for n in ast.walk(tree)]
        for n in nodes:
            for field, val in list(ast.iter_fields(n)):
                if isinstance(val, ast.expr) and not isinstance(val, ast.Name) and not (isinstance(n, ast.FormattedValue) and field == 'format_spec'):
                    it += 1
                    setattr(n, field, ast.Name(id='a', ctx=getattr(val, 'ctx', ast.Load())))
                    g, s = ok(tree)
                    if g:
                        cur = s
                        changed = True
                    else:
                        # try hoisting a child expression in its place
                        done = False
                        for ch in ast.iter_child_nodes(val):
                            if isinstance(ch, ast.expr):
                                setattr(n, field, ch)
                                g, s = ok(tree)
                                if g:
                                    cur = s
                                    changed = True
                                    done = True
                                    break
                        if not done:
                            setattr(n, field, val)
                elif isinstance(val, list) and len(val) > 0 and all(isinstance(x, ast.AST) for x in val):
                    i = 0
                    while i < len(val):
                        if len(val) == 1 and field in ('body', 'values', 'names', 'targets', 'generators', 'ops', 'comparators', 'items', 'cases'):
                            break
                        it += 1
                        x = val.pop(i)
                        g, s = ok(tree)
                        if g:
                            cur = s
                            changed = True
                        else:
                            val.insert(i, x)
                            i += 1
            if changed:
                break
    return cur
