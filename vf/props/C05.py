"""C05 - each option performs only its documented rewrite, only where it is valid.

Oracle: O3 - after erasing exactly the rewrites documented for the enabled options (side conditions decided on the input), input and output
are structurally identical; options that are off contribute no rule. Output must compile.
"""
import ast
import os
import base64

from vf import common, options, pool, runner
from vf.gen import modgen, seeds, triggergen
from vf.props import nameeng

PROP = 'C05'


def gen_cases(tier, seed):
    r = common.rng(seed, 'C05')
    std = options.standard_sets()
    pw = options.pairwise()
    cases = []
    trig = list(triggergen.cases())
    if tier == 'quick':
        # every trigger in 6 rotating contexts
        by = {}
        for c in trig:
            by.setdefault(c['shape'].split('@')[0], []).append(c)
        trig = []
        for k in sorted(by):
            lst = by[k]
            r.shuffle(lst)
            trig += lst[:6]
    for c in trig:
        opt = c['option']
        sets = [('single_on', options.single_on(opt)), ('single_off_from_all_on', options.single_off_from_all_on(opt)), ('all_off', options.all_off()),
                ('default', options.default()), ('all_on', options.all_on())]
        if tier == 'thorough':
            sets += [('rand', options.random_set(r)), ('pair', r.choice(pw))]
        else:
            sets = [sets[0], sets[1], sets[2 + (len(cases) % 3)]]
        for name, o in sets:
            cases.append({'shape': c['shape'], 'src': c['src'], 'opts': dict(o), 'optset': name, 'near_miss': c['near_miss']})
    for tag, s in seeds.all_seeds():
        for name, o in [std[(len(cases) + j * 7) % len(std)] for j in range(3)] + [('all_on', options.all_on())]:
            cases.append({'shape': 'seed:' + tag, 'src': s, 'opts': dict(o), 'optset': name})
    for i in range(150 if tier == 'quick' else 2000):
        s, _ = modgen.generate(seed, 40000 + i, guarded=(i % 2 == 0), size=8 + (i % 3) * 5)
        for j in range(2 if tier == 'quick' else 3):
            k = r.random()
            if k < 0.4:
                name, o = r.choice(std)
            elif k < 0.6:
                name, o = 'pair', r.choice(pw)
            else:
                name, o = 'rand', options.random_set(r, r.choice([0.3, 0.6]))
            cases.append({'shape': 'modgen', 'src': s, 'opts': dict(o), 'optset': name})
    files = list(common.corpus_files('real'))
    r.shuffle(files)
    for f in files[:10 if tier == 'quick' else 127]:
        for j in range(1 if tier == 'quick' else 3):
            name, o = r.choice(std) if j else ('all_on', options.all_on())
            cases.append({'shape': 'corpus', 'file': f, 'src_b64': base64.b64encode(common.read_text(f)).decode(), 'opts': dict(o), 'optset': name})
    for i, c in enumerate(cases):
        c['prop'] = PROP
        c.setdefault('timeout', 150 if c.get('shape') in ('modgen', 'corpus') or str(c.get('shape')).startswith('exhaustion') else 40)
        c['want_sample'] = i % 800 == 0
    return cases


def compile_time_effect(src):
    """known finding key: a removed assert / `if __debug__` block holds something that acts at compile time - a yield (makes the function a generator),
    a global / nonlocal declaration - which -O keeps although the statement never runs"""
    try:
        tree = ast.parse(src)
    except Exception:
        return None
    from vf.oracle import matcher
    for n in ast.walk(tree):
        removable = isinstance(n, ast.Assert) or (isinstance(n, ast.If) and matcher.debug_test(n.test))
        if removable and any(isinstance(m, (ast.Yield, ast.YieldFrom, ast.Await, ast.Global, ast.Nonlocal)) for m in ast.walk(n)):
            return 'C05.removal.compile_time_effect_lost'
    # a binding inside the dead statement still makes its name a local of the function (UnboundLocalError instead of a global / builtin lookup)
    for f in ast.walk(tree):
        if isinstance(f, (ast.FunctionDef, ast.AsyncFunctionDef)):
            for n in ast.walk(f):
                removable = isinstance(n, ast.Assert) or (isinstance(n, ast.If) and matcher.debug_test(n.test))
                if removable and any((isinstance(m, ast.Name) and not isinstance(m.ctx, ast.Load)) or isinstance(m, (ast.alias, ast.FunctionDef, ast.AsyncFunctionDef, ast.ClassDef, ast.ExceptHandler))
                                     for m in ast.walk(n) if m is not n):
                    return 'C05.removal.compile_time_effect_lost'
    return None


def run_O_case(case):
    """assert / __debug__ removal equals what the interpreter's -O mode runs: observe(input, optimize=1) == observe(output, optimize=1)"""
    import python_minifier as pm
    from vf.oracle import observe
    src = case['src']
    res = {'status': 'held', 'violations': [], 'counters': {}, 'nontrivial': []}
    a = observe.observe(src, optimize=1)
    if a['outcome'] in ('timeout', 'child-died') or a['outcome'].startswith('compile-error'):
        return {'status': 'skip', 'reason': 'original under -O: ' + a['outcome']}
    if observe.same(a, observe.observe(src, optimize=1)):
        return {'status': 'skip', 'reason': 'original is not self-stable'}
    for name, o in case['optsets']:
        try:
            out = pm.minify(src, **common.opts_to_kwargs(o, pm))
            off = dict(o)
            off['remove_asserts'] = off['remove_debug'] = False
            out_off = pm.minify(src, **common.opts_to_kwargs(off, pm))
        except Exception:
            continue
        q = observe.observe(out, optimize=1)
        if q['outcome'].startswith('compile-error'):
            continue
        # reference = the same option set without the two removals, also under -O (isolates assert / __debug__ removal from the other options)
        a = observe.observe(out_off, optimize=1)
        if a['outcome'].startswith('compile-error') or a['outcome'] in ('timeout', 'child-died'):
            continue
        res['counters']['optimize_equivalence_runs'] = res['counters'].get('optimize_equivalence_runs', 0) + 1
        if out != out_off:
            res['nontrivial'].append('O|' + common.sha(src) + '|' + name)
        d = observe.same(a, q)
        if d:
            res['violations'].append({'mech': compile_time_effect(src), 'detail': 'under -O the output of [%s] behaves differently from the same option set without assert/__debug__ removal under -O: %s' % (name, observe.describe_diff(a, q)),
                                      'witness': {'optset': name, 'opts': o, 'out': out[:1500]}})
    if res['violations']:
        res['status'] = 'violation'
    return res


def O_cases(tier, seed):
    r = common.rng(seed, 'C05-O')
    out = []
    sets = []
    for ra, rd in ((True, False), (False, True), (True, True)):
        for base_name, base in (('all_off', options.all_off()), ('default', options.default())):
            o = dict(base)
            o['remove_asserts'] = ra
            o['remove_debug'] = rd
            sets.append(('%s+asserts=%s+debug=%s' % (base_name, ra, rd), o))
    trig = [c for c in triggergen.cases() if c['option'] in ('remove_asserts', 'remove_debug')]
    if tier == 'quick':
        r.shuffle(trig)
        trig = trig[:220]
    for c in trig:
        out.append({'shape': c['shape'], 'src': c['src'], 'optsets': sets, 'timeout': 100})
    for i in range(120 if tier == 'quick' else 2500):
        s, tags = modgen.generate(seed, 45000 + i, guarded=True, size=10, features=['debug', 'if'])
        out.append({'shape': 'modgen.guarded', 'src': s, 'optsets': sets[3:], 'timeout': 100})
    return out


def main(tier, seed):
    run = runner.Run(PROP, tier, seed)
    cases = gen_cases(tier, seed)
    heavy = [c for c in cases if c['shape'] in ('modgen', 'corpus')]
    light = [c for c in cases if c['shape'] not in ('modgen', 'corpus')]

    def on(c, r):
        slim = {'shape': c['shape'], 'opts': c['opts'], 'file': c.get('file')}
        if r.get('status') == 'violation' or 'inconclusive' in r:
            slim['src'] = c.get('src')
            slim['src_b64'] = c.get('src_b64')
        if c['shape'].startswith('trigger.'):
            opt = c['shape'].split('.')[1]
            ctx = c['shape'].split('@')[1]
            if r.get('status') == 'held':
                fired = bool(r.get('nontrivial'))
                if c.get('near_miss'):
                    run.cell('near_miss_triggers_held', opt)
                run.cell('trigger_option_x_context', '%s@%s' % (opt, ctx))
        run.cell('option_set_class', c.get('optset', '?').split(':')[0])
        run.add(slim, r)
    pool.run_cases(light, 'vf.props.nameeng:run_case', timeout=30, batch=30, on_result=on, deadline=run.deadline)
    nameeng.foreign_layer(run, PROP, light, tier, per_version=450 if tier == 'quick' else 8000)
    pool.run_cases(heavy, 'vf.props.nameeng:run_case', timeout=60, batch=2, on_result=on, deadline=run.deadline)
    def on_O(c, r):
        slim = {'shape': c['shape'], 'layer': 'optimize'}
        if r.get('status') == 'violation':
            slim['src'] = c['src']
        run.add(slim, r)
    pool.run_cases(O_cases(tier, seed), 'vf.props.C05:run_O_case', timeout=120, batch=4, on_result=on_O, deadline=run.deadline)
    # ---- the same -O equivalence with minifier and program inside every other interpreter started with -O (asserts and `if __debug__` are then dead
    # code for the interpreter itself): run(P) must equal run(minify(P, removals on))
    ocases = []
    for c in O_cases(tier, seed):
        if not str(c['shape']).startswith('trigger'):
            continue
        ocases.append({'op': 'run', 'shape': c['shape'], 'src': c['src'], 'optsets': [[n, o] for n, o in c['optsets'][:3]], 'case_timeout': 40})
    ocases = ocases[:(150 if tier == 'quick' else 100000)]
    for version, py in common.interpreters():
        if version == '3.12-venv' or run.timed_out():
            continue
        if tier == 'quick' and version not in ('2.7.18', '3.6.15', '3.9.18', '3.13.0'):
            continue

        def on_xo(c, r, version=version):
            slim = {'shape': c['shape'], 'layer': 'optimize-cross', 'interpreter': version}
            if 'inconclusive' in r and r.get('status') is None:
                run.add(slim, r)
                return
            out = {'status': r.get('status'), 'violations': [], 'counters': {}, 'nontrivial': []}
            if r.get('status') == 'skip':
                out['reason'] = 'optimize-cross: ' + r.get('reason', 'skip')
            elif r.get('status') in ('held', 'violation'):
                out['counters'] = {'optimize_cross_interpreter_runs': r.get('variants', 0)}
                run.cell('optimize_cross_interpreter', version)
                if r.get('changed'):
                    out['nontrivial'] = ['Ox|%s|%s' % (version, common.sha(c['src']))]
            for v in r.get('violations') or []:
                out['violations'].append({'mech': compile_time_effect(c['src']), 'detail': '%s -O: output of [%s] behaves differently from the input: %s' % (version, v.get('optset'), v['detail']),
                                          'witness': {'interpreter': version, 'opts': v.get('opts'), 'out': v.get('out')}})
            if out['violations']:
                slim['src'] = c['src']
                slim['optsets'] = c['optsets']
            run.add(slim, out)
        env = common.clean_env()
        env['PYTHONPATH'] = common.REPO_SRC
        pool.run_cases(ocases, None, cmd=[py, '-O', '-W', 'ignore', os.path.join(common.VERIF, 'vf', 'compat_worker.py')], env=env, timeout=60, batch=8, on_result=on_xo,
                       deadline=run.deadline, nworkers=6)
    return run.finish(
        rule='every option\'s trigger statement and each near-miss of its side condition in 21 contexts (module, def, class, if/elif/else, for/while '
             '(+else), try/except/else/finally, except*, with, match-case, nested, async) x {single-on from all-off, single-off from all-on, all-off, '
             'default, all-on, pairwise, random}; seeds, random modules and stdlib files x standard / pairwise / random option sets; '
             'non-trivial/distinct = distinct (source, option set) where the output differs from the input and a documented rule fired',
        assumptions=['vf/oracle/matcher.py encodes docs/source/transforms/*.rst; an implementation may rewrite less than documented, never more'],
        min_nontrivial=150, required_counters=['matcher_runs', 'foreign_outputs_compared', 'optimize_equivalence_runs', 'optimize_cross_interpreter_runs'])


def replay(path):
    w = runner.load_replay(path)
    if w['case'].get('layer') == 'optimize':
        import json
        wit = w['witness']
        r = run_O_case({'shape': w['case']['shape'], 'src': w['case']['src'], 'optsets': [(wit['optset'], wit['opts'])]})
        print(json.dumps(r, indent=1)[:3000])
        if r.get('violations'):
            print('VIOLATION property=%s replay=%s' % (PROP, path))
            return 1
        return 0
    return nameeng.replay_case(path, PROP)
