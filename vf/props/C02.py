"""C02 - printed source re-parses to exactly the same syntax tree (strict), on every interpreter present.

Monitor: python_minifier.unparse(ast.parse(S)) and minify(S, <all transforms off>) executed inside each
interpreter (vf/compat_worker.py); oracle O1 = strict dump equality (constants by (type, repr)).
"""
import base64
import glob
import os
import time

from vf import common, pool, runner
from vf.gen import exprgen, constgen

PROP = 'C02'


def classify(v):
    """mechanism keys for known findings (see known_findings.txt)."""
    d = (v.get('detail') or '') + ' ' + (v.get('out') or '')
    if v.get('kind') in ('UnstableMinification', 'tree-differs', 'output-unparseable') and v.get('with_tuple'):
        return 'C02.with.parenthesised_tuple'
    if v.get('kind') in ('UnstableMinification', 'tree-differs', 'output-unparseable') and v.get('py2_exec'):
        return 'C02.py2.exec_operand_parentheses'
    if v.get('kind') in ('UnstableMinification', 'tree-differs', 'output-unparseable') and v.get('py2_kwargs'):
        return 'C02.py2.call_kwargs_parentheses'
    return None


def _has_with_tuple(src):
    import ast
    try:
        t = ast.parse(src)
    except Exception:
        return False
    for n in ast.walk(t):
        if isinstance(n, (ast.With, ast.AsyncWith)) and len(n.items) == 1 and isinstance(n.items[0].context_expr, ast.Tuple) \
                and n.items[0].optional_vars is None:
            return True
    return False


def gen_cases(tier, seed):
    cases = []
    tri = list(exprgen.triples())
    adj = list(exprgen.adjacency_cases())
    if tier == 'quick':
        r = common.rng(seed, 'C02-sample')
        # stratified: every (template, slot) keeps a sample of children
        by = {}
        for c in tri:
            by.setdefault(c['shape'].split('<')[0], []).append(c)
        for k in sorted(by):
            lst = by[k]
            r.shuffle(lst)
            cases.extend(lst[:45])
        r.shuffle(adj)
        cases.extend(adj[:1500])
        nrand, nconst = 1500, 1500
    else:
        cases.extend(tri)
        cases.extend(adj)
        nrand, nconst = 30000, 20000
    from vf.gen import seeds as _seeds
    for tag, src in _seeds.VERSION_SENSITIVE + _seeds.PY2_SEEDS + _seeds.all_seeds():
        cases.append({'shape': 'seed:' + tag, 'src': src, 'all_interpreters': True})
    cases.extend(exprgen.random_cases(seed, nrand, depth=6))
    cases.extend(constgen.const_cases(seed, nconst))
    # quoting-hostile string / bytes / f-string contents in every literal position (the canary names are inert here: nothing is executed by a round trip)
    from vf.gen import strgen
    hostile = strgen.cases(seed, '/nonexistent/vf_canary', 'vf_no_such_module', limit=600 if tier == 'quick' else None)
    hostile += strgen.random_cases(seed, '/nonexistent/vf_canary', 'vf_no_such_module', 300 if tier == 'quick' else 8000)
    for c in hostile:
        cases.append({'shape': 'strings.' + c['shape'], 'src': c['src']})
    for c in cases:
        c['op'] = 'rt'
    return cases


def corpus_cases(tier, version, seed):
    out = []
    files = list(common.corpus_files('real')) + list(common.corpus_files('tests312'))
    if tier == 'thorough' and version != '3.12-venv':
        d = common.stdlib_dir(version)
        full = sorted(glob.glob(os.path.join(d, '**', '*.py'), recursive=True))
        full = [f for f in full if '/site-packages/' not in f and os.path.getsize(f) < 400000]
        r = common.rng(seed, 'C02-corpus', version)
        r.shuffle(full)
        files = files + full[:1200]
    elif tier == 'quick':
        r = common.rng(seed, 'C02-corpus-q', version)
        r.shuffle(files)
        files = files[:60] if version not in ('3.12-venv',) else files
    for f in files:
        out.append({'op': 'rt', 'shape': 'corpus', 'file': f,
                    'src_b64': base64.b64encode(common.read_text(f)).decode('ascii')})
    return out


def main(tier, seed):
    run = runner.Run(PROP, tier, seed)
    cases = gen_cases(tier, seed)
    interps = common.interpreters()
    skeletons = set()
    per_interp = {}
    errors = {}
    tri_total = sum(1 for _ in exprgen.triples())
    tri_seen = set()
    for version, py in interps:
        if run.timed_out():
            run.count('interpreters_skipped_budget')
            continue
        cs = list(cases)
        if tier == 'quick' and version != '3.12-venv':
            # other interpreters get a rotating third of the generated stream + a corpus sample
            cs = [c for i, c in enumerate(cs) if (i + len(version) + seed) % 3 == 0 or c.get('all_interpreters')]
        cs = cs + corpus_cases(tier, version, seed)
        stats = {'cases': 0, 'parsed': 0, 'violations': 0}

        def on_result(c, r, version=version, stats=stats):
            stats['cases'] += 1
            if r.get('status') in ('held', 'violation'):
                stats['parsed'] += 1
                if r.get('skeleton'):
                    skeletons.add(r['skeleton'])
                    run.nontrivial.add(r['skeleton'])
                if version == '3.12-venv' and '<' in c.get('shape', ''):
                    tri_seen.add(c['shape'])
            out = {'status': r.get('status'), 'reason': r.get('reason'), 'violations': []}
            if 'inconclusive' in r:
                out = r
            for e in r.get('errors') or []:
                # non-round-trip exceptions belong to C08; counted here as evidence only
                k = '%s@%s' % (e['exc']['type'], e['exc']['site'])
                errors[k] = errors.get(k, 0) + 1
            for v in r.get('violations') or []:
                stats['violations'] += 1
                src = c.get('src')
                if src is None:
                    src = base64.b64decode(c['src_b64']).decode('utf-8', 'replace')
                v['with_tuple'] = _has_with_tuple(src)
                v['py2_kwargs'] = version.startswith('2.') and bool(__import__('re').search(r'\*\*\s*\(\s*\(', src))
                v['py2_exec'] = version.startswith('2.') and bool(__import__('re').search(r'(^|\n)\s*exec\b', src))
                out['violations'].append({
                    'mech': classify(v),
                    'detail': '%s [%s] %s: %s' % (version, v.get('mode'), v.get('kind'), v.get('detail')),
                    'witness': {'interpreter': version, 'shape': c.get('shape'), 'file': c.get('file'),
                                'src': src if len(src) < 3000 else src[:3000], 'out': v.get('out'), 'mode': v.get('mode')}})
            if r.get('status') == 'held' and len(run.samples) < 6 and c.get('src') and stats['cases'] % 997 == 1:
                out['sample'] = {'interpreter': version, 'shape': c.get('shape'), 'src': c['src'][:200]}
            slim = {'shape': c.get('shape'), 'file': c.get('file'), 'interpreter': version}
            if c.get('src') is not None and len(c['src']) < 2000:
                slim['src'] = c['src']
            run.add(slim, out)

        env = common.clean_env()
        env['PYTHONPATH'] = common.REPO_SRC
        pool.run_cases(cs, None, cmd=[py, '-W', 'ignore', os.path.join(common.VERIF, 'vf', 'compat_worker.py')], env=env,
                       timeout=30.0, batch=40, on_result=on_result, deadline=run.deadline + 60)
        per_interp[version] = stats
        run.count('interpreters_run')
    extra = {
        'interpreters': per_interp,
        'triples_total': tri_total,
        'triples_parsed_and_checked_on_3.12': len(tri_seen),
        'non_roundtrip_exceptions_routed_to_C08': errors,
        'distinct_ast_skeletons': len(skeletons),
    }
    return run.finish(
        rule='cases = exhaustive (parent template, slot, child) triples with every child parenthesised in the source '
             '(quick: stratified sample), token-adjacency grid, random nested expressions, constants, real stdlib files; '
             'each run through unparse() and minify(all off) inside every interpreter present; non-trivial/distinct = '
             'distinct strict node-class skeletons of inputs that parsed and were compared',
        assumptions=['ast.parse of the same interpreter is the reference for "the tree of S"',
                     'Constant.kind (u prefix), positions and type comments are not part of the tree'],
        extra=extra, min_nontrivial=200)


def replay(path):
    import json
    import subprocess
    w = runner.load_replay(path)
    wit = w['witness']
    version = wit['interpreter']
    py = dict(common.interpreters())[version]
    case = {'op': 'rt', 'src': wit['src']}
    env = common.clean_env()
    env['PYTHONPATH'] = common.REPO_SRC
    p = subprocess.run([py, '-W', 'ignore', os.path.join(common.VERIF, 'vf', 'compat_worker.py')], input=(json.dumps({'batch': [case]}) + '\n').encode(),
                       stdout=subprocess.PIPE, env=env, timeout=120)
    r = json.loads(p.stdout.decode())['batch'][0]
    print(json.dumps(r, indent=1))
    if r.get('violations'):
        print('VIOLATION property=%s replay=%s' % (PROP, path))
        return 1
    return 0
