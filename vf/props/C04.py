"""C04 - externally visible names are never changed.

Oracle: from O3's pairing of identifier occurrences: attribute names, names bound in class scopes, keyword-passable parameters, call-site
and class keyword names, imported module/member names, dunder names and never-bound names are spelled identically; with
rename_globals off the module-level bound names are unchanged and every added name starts with an underscore.
"""
import base64

from vf import common, options, pool, runner
from vf.gen import modgen, scopegen, seeds
from vf.props import nameeng

PROP = 'C04'

IFACE = [
    # keyword calls to every parameter kind
    "def target(first, second=2, /, third=3, *rest, fourth, fifth=5, **others):\n    total = first + second + third + fourth + fifth\n    return total, rest, sorted(others)\nprint(target(1, 2, third=3, fourth=4), target(1, fourth=4, fifth=6, sixth=7))\n",
    "callback = lambda first, second=2, *rest, key=None, **others: (first, second, rest, key, others)\nprint(callback(1, second=3, key=4, extra=5))\n",
    "class Service:\n    def method(this, /, argument, option=None):\n        return this, argument, option\n    @staticmethod\n    def helper(first, second):\n        return first + second\n    @classmethod\n    def build(klass, config=None):\n        return klass, config\n    @property\n    def prop(instance):\n        return instance\n    def __init__(self, value, *, flag=False):\n        self.value = value\n        self.flag = flag\nprint(Service(1, flag=True).method(argument=2, option=3)[1:], Service.helper(first=1, second=2), Service.build(config=4)[1])\n",
    "import functools\nclass Deco:\n    @functools.wraps(print)\n    def wrapped(notself, argument):\n        return argument\n    def plain(self_like, argument=1):\n        local_value = argument * 2\n        return local_value\nprint(Deco().plain(argument=3))\n",
    "class Outer:\n    class Inner:\n        attribute = 1\n        def method(self, parameter):\n            return parameter + self.attribute\n    if True:\n        conditional_attribute = 2\n        def conditional_method(self, parameter=0):\n            return parameter\n    else:\n        other_attribute = 3\n    try:\n        guarded = Inner.attribute\n    except Exception as error_name:\n        guarded = None\n    for loop_attribute in range(2):\n        pass\n    with open('/dev/null') as handle_attribute:\n        pass\nprint(Outer.conditional_attribute, Outer.loop_attribute, Outer().conditional_method(parameter=5), Outer.Inner().method(parameter=1))\n",
    "import os.path\nimport collections.abc as abc_module\nfrom os import path as os_path_alias, sep\nimport json, sys\nprint(os.path.basename('/a/b'), abc_module.Mapping, os_path_alias.join('a', 'b'), sep, json.dumps(1), sys.maxsize > 0)\n",
    "class Annotated:\n    field_one: int = 1\n    field_two: str\n    def method(self, argument: int = 0) -> int:\n        local_annotated: int = argument\n        return local_annotated\nglobal_annotated: int = 5\nprint(Annotated.field_one, Annotated.__annotations__.keys() if hasattr(Annotated, '__annotations__') else None, global_annotated)\n",
    "def uses_unbound():\n    return undefined_global_name\ntry:\n    uses_unbound()\nexcept NameError as e:\n    print(e.name if hasattr(e, 'name') else 'NameError')\n__version__ = '1.0'\n__custom_dunder__ = 2\ndef reads_dunder():\n    return __version__, __custom_dunder__, __name__\nprint(reads_dunder()[:2])\n",
    "class Meta(type):\n    def __new__(mcls, name, bases, namespace, **kwargs):\n        return super().__new__(mcls, name, bases, namespace)\n    def __init__(cls, name, bases, namespace, keyword_option=None):\n        cls.keyword_option = keyword_option\nclass Configured(metaclass=Meta, keyword_option='set'):\n    pass\nprint(Configured.keyword_option)\n",
    "def outer(parameter_one, parameter_two=2):\n    def inner(inner_parameter, inner_default=parameter_two):\n        return inner_parameter + inner_default + parameter_one\n    return inner(inner_parameter=1), inner(1, inner_default=5)\nprint(outer(parameter_one=1), outer(1, parameter_two=3))\n",
    "import dataclasses\n@dataclasses.dataclass\nclass Record:\n    identifier: int\n    label: str = 'x'\n    def describe(self):\n        return f'{self.identifier}:{self.label}'\nprint(Record(identifier=1, label='y').describe(), Record(2))\n",
    "from typing import NamedTuple\nclass Point(NamedTuple):\n    horizontal: int\n    vertical: int = 0\nprint(Point(horizontal=1), Point(1, vertical=2)._asdict())\n",
    "def generator_function(start_value, step_value=1):\n    current = start_value\n    while current < 3:\n        received = yield current\n        current += step_value\nprint(list(generator_function(step_value=1, start_value=0)))\n",
    "async def coroutine_function(first_argument, *, keyword_only_argument=None):\n    return first_argument, keyword_only_argument\nimport asyncio\nprint(asyncio.run(coroutine_function(1, keyword_only_argument=2)))\n",
    "match {'key': 1, 'other': 2}:\n    case {'key': captured_value, **remaining_items}:\n        print(captured_value, remaining_items)\nclass Pattern:\n    __match_args__ = ('alpha_attr', 'beta_attr')\n    def __init__(self, alpha_attr, beta_attr):\n        self.alpha_attr = alpha_attr\n        self.beta_attr = beta_attr\nmatch Pattern(1, 2):\n    case Pattern(alpha_attr=first_capture, beta_attr=second_capture):\n        print(first_capture, second_capture)\n",
    "def reads_injected():\n    global injected_from_outside\n    try:\n        return injected_from_outside, injected_from_outside, injected_from_outside\n    except NameError:\n        return 'not injected'\ndef also_reads():\n    return injected_from_outside\nprint(reads_injected())\n",
    "global_counter = 0\ndef increment(amount=1):\n    global global_counter\n    global_counter += amount\n    return global_counter\nprint(increment(amount=2), global_counter)\ndef shadow(len, list=None):\n    return len, list\nprint(shadow(len=1, list=2))\n",
]


def gen_cases(tier, seed):
    r = common.rng(seed, 'C04')
    std = [o for _, o in options.standard_sets()]
    pw = options.pairwise()
    cases = []

    def optsets(n):
        out = []
        for i in range(n):
            k = r.random()
            if k < 0.3:
                o = dict(r.choice(std))
            elif k < 0.55:
                o = dict(r.choice(pw))
            else:
                o = options.random_set(r, r.choice([0.4, 0.7]))
            if r.random() < 0.5:
                o['rename_locals'] = True
            if r.random() < 0.35:
                o['rename_globals'] = True
            out.append(o)
        return out
    for i, s in enumerate(IFACE):
        for o in optsets(6 if tier == 'quick' else 40) + [options.default(), options.all_on(), dict(options.default(), rename_globals=True),
                                                         dict(options.default(), rename_globals=True, remove_class_attribute_annotations=True)]:
            cases.append({'shape': 'iface:%d' % i, 'src': s, 'opts': o})
    for tag, s in seeds.all_seeds():
        for o in optsets(2 if tier == 'quick' else 8):
            cases.append({'shape': 'seed:' + tag, 'src': s, 'opts': o})
    sc = (list(scopegen.stratified_cases(seed + 1))[::2] if tier == 'quick' else list(scopegen.enumerate_cases(max_stmt_depth=2, expr_depth=(0, 1), sample=40000, seed=seed + 1))) + \
        list(scopegen.sampled_cases(seed + 1, 400 if tier == 'quick' else 10000))
    for c in sc:
        for o in optsets(1):
            cases.append({'shape': c['shape'], 'src': c['src'], 'opts': o})
    # option triggers in their contexts (raise forms with keyword arguments, relative imports at several levels, decorated classes ...): the names
    # they carry - keywords, attributes, imported modules - are interface names too
    from vf.gen import triggergen
    trig = list(triggergen.cases())
    r.shuffle(trig)
    trig = [c for c in trig if c['shape'].endswith('@special')] + [c for c in trig if not c['shape'].endswith('@special')]
    for c in trig[:(500 if tier == 'quick' else len(trig))]:
        o = options.default() if r.random() < 0.5 else options.all_on()
        if r.random() < 0.3:
            o = options.random_set(r, 0.7)
        cases.append({'shape': c['shape'], 'src': c['src'], 'opts': o})
    for i in range(140 if tier == 'quick' else 1200):
        s, _ = modgen.generate(seed, 30000 + i, guarded=(i % 2 == 0), size=8 + (i % 3) * 5)
        for o in optsets(2):
            cases.append({'shape': 'modgen', 'src': s, 'opts': o})
    files = list(common.corpus_files('real'))
    r.shuffle(files)
    for f in files[:10 if tier == 'quick' else 127]:
        for o in optsets(1 if tier == 'quick' else 3):
            cases.append({'shape': 'corpus', 'file': f, 'src_b64': base64.b64encode(common.read_text(f)).decode(), 'opts': o})
    for i, c in enumerate(cases):
        c['prop'] = PROP
        c.setdefault('timeout', 150 if c.get('shape') in ('modgen', 'corpus') or str(c.get('shape')).startswith('exhaustion') else 40)
        c['want_sample'] = i % 900 == 0
    return cases


def main(tier, seed):
    run = runner.Run(PROP, tier, seed)
    cases = gen_cases(tier, seed)
    heavy = [c for c in cases if c['shape'] in ('modgen', 'corpus')]
    light = [c for c in cases if c['shape'] not in ('modgen', 'corpus')]

    def on(c, r):
        slim = {'shape': c['shape'], 'opts': c['opts'], 'file': c.get('file')}
        if r.get('status') == 'violation' or 'inconclusive' in r:
            slim['src'] = c.get('src')
            slim['src_b64'] = c.get('src_b64')
        run.cell('shape_class', c['shape'].split('|')[0].split(':')[0].split('.')[0])
        run.add(slim, r)
    pool.run_cases(light, 'vf.props.nameeng:run_case', timeout=60, batch=40, on_result=on, deadline=run.deadline)
    nameeng.foreign_layer(run, PROP, light, tier, per_version=300 if tier == 'quick' else 5000)
    pool.run_cases(heavy, 'vf.props.nameeng:run_case', timeout=180, batch=2, on_result=on, deadline=run.deadline)
    return run.finish(
        rule='interface-focused templates (keyword calls to every parameter kind, lambdas called by keyword, methods with / and decorated first '
             'parameters, nested and conditional class bodies, dotted imports, dataclass / NamedTuple fields, metaclass keywords, match class '
             'patterns, dunder and never-bound names) + scope shapes + random modules + stdlib files x option sets from the 2^18 lattice samplers '
             '(standard, pairwise, random; rename_locals / rename_globals forced on often); non-trivial/distinct = distinct (source, option set) '
             'with at least one rename or introduced alias',
        assumptions=['the documented exceptions (self/cls-like first parameter of an undecorated or @classmethod method, *args/**kwargs, positional-only '
                     'parameters) may be renamed in the signature; nothing else that a caller can name'],
        min_nontrivial=200, required_counters=['matcher_runs', 'foreign_outputs_compared', 'identifier_pairs_checked'])


def replay(path):
    return nameeng.replay_case(path, PROP)
