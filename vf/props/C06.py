"""C06 - hoisted literals are bound once, before use, to an identical value.

Oracle: O3's alias rule (an introduced `Name = Constant` is stored exactly once, never deleted or rebound, lives in the prologue of a def /
module body that encloses every use, all uses resolve (O2) to it, (type, repr)-equal to every literal it replaces) + position rules
(docstring stays first, __future__ imports stay first, no replacement in match patterns, __slots__, f-string text, docstring position).
"""
import base64

from vf import common, options, pool, runner
from vf.gen import litgen, modgen, seeds
from vf.props import nameeng

PROP = 'C06'


def gen_cases(tier, seed):
    r = common.rng(seed, 'C06')
    cases = []

    def optsets(n):
        out = []
        for i in range(n):
            base = options.all_off() if r.random() < 0.4 else (options.default() if r.random() < 0.6 else options.random_set(r))
            base['hoist_literals'] = True
            base['rename_globals'] = r.random() < 0.5
            base['rename_locals'] = r.random() < 0.6
            out.append(base)
        return out
    n = 900 if tier == 'quick' else 20000
    for i in range(n):
        s = litgen.generate(seed, i)
        for o in optsets(2 if tier == 'quick' else 3):
            cases.append({'shape': 'litgen', 'src': s, 'opts': o})
    for tag, s in seeds.all_seeds():
        for o in optsets(2):
            cases.append({'shape': 'seed:' + tag, 'src': s, 'opts': o})
    for i in range(120 if tier == 'quick' else 3000):
        s, _ = modgen.generate(seed, 50000 + i, guarded=(i % 2 == 0), size=8 + (i % 3) * 5)
        for o in optsets(1):
            cases.append({'shape': 'modgen', 'src': s, 'opts': o})
    files = list(common.corpus_files('real'))
    r.shuffle(files)
    for f in files[:10 if tier == 'quick' else 127]:
        for o in optsets(1 if tier == 'quick' else 2):
            cases.append({'shape': 'corpus', 'file': f, 'src_b64': base64.b64encode(common.read_text(f)).decode(), 'opts': o})
    for i, c in enumerate(cases):
        c['prop'] = PROP
        c['want_sample'] = i % 700 == 0
    return cases


def main(tier, seed):
    run = runner.Run(PROP, tier, seed)
    cases = gen_cases(tier, seed)
    heavy = [c for c in cases if c['shape'] in ('modgen', 'corpus')]
    light = [c for c in cases if c['shape'] not in ('modgen', 'corpus')]

    def on(c, r):
        slim = {'shape': c['shape'], 'opts': c['opts'], 'file': c.get('file')}
        if r.get('status') == 'violation' or 'inconclusive' in r:
            slim['src'] = c.get('src')
            slim['src_b64'] = c.get('src_b64')
        run.add(slim, r)
    pool.run_cases(light, 'vf.props.nameeng:run_case', timeout=30, batch=20, on_result=on, deadline=run.deadline)
    pool.run_cases(heavy, 'vf.props.nameeng:run_case', timeout=60, batch=2, on_result=on, deadline=run.deadline)
    return run.finish(
        rule='literal-rich programs: type-confusable value sets (True/1/1.0/"1", 0/False/0.0/-0.0/"", "a"/b"a") repeated across sibling and nested '
             'functions, classes inside functions, lambdas, comprehensions, defaults, decorators, f-string fields, match subjects/guards/bodies/'
             'patterns, __slots__, docstrings, with six header variants (docstring, __future__ imports, shebang); + seeds, random modules, stdlib; '
             'hoist_literals on x rename_globals x rename_locals over all-off/default/random bases; non-trivial/distinct = distinct (source, option set) '
             'with at least one introduced constant alias',
        assumptions=['an alias is recognised as a leading `Name = Constant` statement of a def/module body that the input does not have'],
        min_nontrivial=150, required_counters=['matcher_runs', 'constant_aliases', 'hoisted_uses'])


def replay(path):
    return nameeng.replay_case(path, PROP)
