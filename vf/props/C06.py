"""C06 - hoisted literals are bound once, before use, to an identical value.

Oracle: O3's alias rule (an introduced `Name = Constant` is stored exactly once, never deleted or rebound, lives in the prologue of a def /
module body that encloses every use, all uses resolve (O2) to it, (type, repr)-equal to every literal it replaces) + position rules
(docstring stays first, __future__ imports stay first, no replacement in match patterns, __slots__, f-string text, docstring position).
"""
import base64

from vf import common, options, pool, runner
from vf.gen import litgen, modgen, seeds
from vf.props import nameeng

PROP = 'C06'


def gen_cases(tier, seed):
    r = common.rng(seed, 'C06')
    cases = []

    def optsets(n):
        out = []
        for i in range(n):
            base = options.all_off() if r.random() < 0.4 else (options.default() if r.random() < 0.6 else options.random_set(r))
            base['hoist_literals'] = True
            base['rename_globals'] = r.random() < 0.5
            base['rename_locals'] = r.random() < 0.6
            out.append(base)
        return out
    n = 900 if tier == 'quick' else 20000
    for i in range(n):
        s = litgen.generate(seed, i)
        for o in optsets(2 if tier == 'quick' else 3):
            cases.append({'shape': 'litgen', 'src': s, 'opts': o})
    for tag, s in seeds.all_seeds():
        for o in optsets(2):
            cases.append({'shape': 'seed:' + tag, 'src': s, 'opts': o})
    for i in range(120 if tier == 'quick' else 1200):
        s, _ = modgen.generate(seed, 50000 + i, guarded=(i % 2 == 0), size=8 + (i % 3) * 5)
        for o in optsets(1):
            cases.append({'shape': 'modgen', 'src': s, 'opts': o})
    files = list(common.corpus_files('real'))
    r.shuffle(files)
    for f in files[:10 if tier == 'quick' else 127]:
        for o in optsets(1 if tier == 'quick' else 2):
            cases.append({'shape': 'corpus', 'file': f, 'src_b64': base64.b64encode(common.read_text(f)).decode(), 'opts': o})
    for i, c in enumerate(cases):
        c['prop'] = PROP
        c.setdefault('timeout', 150 if c.get('shape') in ('modgen', 'corpus') or str(c.get('shape')).startswith('exhaustion') else 40)
        c['want_sample'] = i % 700 == 0
    return cases


CONFUSABLE = ["'a'", "u'a'", "b'a'", "''", "u''", "b''", "'text value'", "u'text value'", "b'text value'", 'True', 'False', 'None', "'1'", "u'1'", "'\\xe9'", "u'\\xe9'"]


def typed_programs(seed, n):
    """the program records (type name, repr) of every literal occurrence itself: values that compare equal across types must not be merged"""
    r = common.rng(seed, 'C06-typed')
    for i in range(n):
        vals = r.sample(CONFUSABLE, r.randrange(2, 6))
        lines = []
        names = []
        for j, v in enumerate(vals):
            k = r.randrange(3, 6)
            if r.random() < 0.5:
                lines.append('X%d = [%s]' % (j, ', '.join([v] * k)))
            else:
                lines.append('def F%d():\n    return [%s]\nX%d = F%d()' % (j, ', '.join([v] * k), j, j))
            names.append('X%d' % j)
        lines.append('V = [[type(x).__name__, repr(x)] for x in %s]' % ' + '.join(names))
        yield {'op': 'valeq', 'shape': 'typed-literals', 'src': '\n'.join(lines) + '\n',
               'opts': dict(hoist_literals=True, rename_globals=r.random() < 0.5, rename_locals=r.random() < 0.5, remove_annotations=False, constant_folding=False, preserve_globals=['V'])}


def main(tier, seed):
    run = runner.Run(PROP, tier, seed)
    # ---- cross-interpreter layer: type identity of hoisted values (str / unicode / bytes on 2.7)
    import os as _os
    tcases = list(typed_programs(seed, 150 if tier == 'quick' else 2500))
    for version, py in common.interpreters():
        if version == '3.12-venv':
            continue
        if tier == 'quick' and version not in ('2.7.18', '3.6.15', '3.13.0', '3.9.18'):
            continue

        def on_t(c, r, version=version):
            out = {'status': r.get('status'), 'violations': [], 'counters': {'typed_literal_programs_run': 1}, 'nontrivial': []}
            if 'inconclusive' in r and r.get('status') is None:
                out = r
            if r.get('status') == 'error':
                out = {'status': 'inconclusive', 'reason': 'minify raised (C08)'}
            if r.get('changed'):
                out['nontrivial'] = ['typed|%s|%s' % (version, common.sha(c['src']))]
            for v in r.get('violations') or []:
                out['violations'].append({'mech': None, 'detail': '%s: hoisting changed the type or value of a literal: %s' % (version, v['detail']),
                                          'witness': {'interpreter': version, 'out': r.get('out')}})
            run.add({'shape': c['shape'], 'interpreter': version, 'src': c['src'], 'opts': c['opts'], 'layer': 'typed'}, out)
        env = common.clean_env()
        env['PYTHONPATH'] = common.REPO_SRC
        pool.run_cases(tcases, None, cmd=[py, '-W', 'ignore', _os.path.join(common.VERIF, 'vf', 'compat_worker.py')], env=env, timeout=20, batch=25, on_result=on_t,
                       deadline=run.deadline)
    cases = gen_cases(tier, seed)
    heavy = [c for c in cases if c['shape'] in ('modgen', 'corpus')]
    light = [c for c in cases if c['shape'] not in ('modgen', 'corpus')]

    def on(c, r):
        slim = {'shape': c['shape'], 'opts': c['opts'], 'file': c.get('file')}
        if r.get('status') == 'violation' or 'inconclusive' in r:
            slim['src'] = c.get('src')
            slim['src_b64'] = c.get('src_b64')
        run.add(slim, r)
    pool.run_cases(light, 'vf.props.nameeng:run_case', timeout=30, batch=20, on_result=on, deadline=run.deadline)
    nameeng.foreign_layer(run, PROP, light, tier, per_version=350 if tier == 'quick' else 6000)
    pool.run_cases(heavy, 'vf.props.nameeng:run_case', timeout=60, batch=2, on_result=on, deadline=run.deadline)
    return run.finish(
        rule='literal-rich programs: type-confusable value sets (True/1/1.0/"1", 0/False/0.0/-0.0/"", "a"/b"a") repeated across sibling and nested '
             'functions, classes inside functions, lambdas, comprehensions, defaults, decorators, f-string fields, match subjects/guards/bodies/'
             'patterns, __slots__, docstrings, with six header variants (docstring, __future__ imports, shebang); + seeds, random modules, stdlib; '
             'hoist_literals on x rename_globals x rename_locals over all-off/default/random bases; non-trivial/distinct = distinct (source, option set) '
             'with at least one introduced constant alias',
        assumptions=['an alias is recognised as a leading `Name = Constant` statement of a def/module body that the input does not have'],
        min_nontrivial=150, required_counters=['matcher_runs', 'foreign_outputs_compared', 'constant_aliases', 'hoisted_uses', 'typed_literal_programs_run'])


def replay(path):
    w = runner.load_replay(path)
    if w['case'].get('layer') == 'typed':
        import json
        import subprocess
        import os as _os
        c = w['case']
        py = dict(common.interpreters())[c['interpreter']]
        env = common.clean_env()
        env['PYTHONPATH'] = common.REPO_SRC
        p = subprocess.run([py, '-W', 'ignore', _os.path.join(common.VERIF, 'vf', 'compat_worker.py')],
                           input=(json.dumps({'batch': [{'op': 'valeq', 'src': c['src'], 'opts': c['opts']}]}) + '\n').encode(), stdout=subprocess.PIPE, env=env, timeout=120)
        r = json.loads(p.stdout.decode())['batch'][0]
        print(json.dumps(r, indent=1)[:2000])
        if r.get('violations'):
            print('VIOLATION property=%s replay=%s' % (PROP, path))
            return 1
        return 0
    return nameeng.replay_case(path, PROP)
