"""C14 - the command line tool never emits more bytes than it was given.

Monitor: real CLI subprocess (PYMINIFY_FORCE_BEST_EFFORT asserted absent), five output modes; bytes on stdout / in the output
file / in place versus the bytes read. Oracle: len(written) <= len(S); written == S whenever UTF-8(api) would be larger.
A second pass with the override set checks that only the documented variable switches the rule off.
"""
import base64
import json
import os
import shutil
import tempfile

from vf import cli, common, pool, runner
from vf.gen import encgen, seeds
from vf.oracle import cli_model

PROP = 'C14'
MODES = ['stdout', 'output', 'in_place', 'stdin', 'stdin_output']


def growers():
    """sources whose minified UTF-8 form is longer than the input"""
    out = []
    out.append(('tab_raw', b'x="\t\t\t\t"\n'))
    out.append(('minimal', b'x=1'))
    out.append(('minimal_nl', b'x=1\n'))
    out.append(('empty', b''))
    out.append(('newline_only', b'\n'))
    out.append(('comment_only', b'# just a comment\n'))
    out.append(('pass', b'pass'))
    out.append(('c1_control', 'x="\x85\x85\x85\x85"\n'.encode('utf-8')))
    out.append(('latin1_many', b'# coding: latin-1\ns="' + b'\xe9' * 40 + b'"\n'))
    out.append(('latin1_few', b'# coding: latin-1\ns="\xe9"\n'))
    out.append(('cp1252_quotes', b'# coding: cp1252\ns="' + b'\x93\x94\x80' * 20 + b'"\n'))
    out.append(('sjis', '# coding: shift_jis\ns="日本語テスト日本語テスト日本語テスト日本語テスト"\n'.encode('shift_jis')))
    out.append(('koi8', '# coding: koi8-r\ns="Привет мир Привет мир Привет мир"\n'.encode('koi8-r')))
    out.append(('semicolons', b'a=1;b=2;c=3'))
    out.append(('already_min', b'def f(a):return a\nprint(f(1))'))
    out.append(('raw_newline_str', b'x="""\n\n\n\n"""'))
    out.append(('unicode_escapes', 'x="​​​​​"'.encode('utf-8')))
    out.append(('surrogate_escape', b'x="\\udc80"'))
    out.append(('shebang_only', b'#!/bin/sh\n'))
    out.append(('bom', b'\xef\xbb\xbfx=1'))
    out.append(('lambda_kw', b'f=lambda a:a'))
    out.append(('import_as', b'import os'))
    out.append(('one_arg_fn', b'def f(argument):return argument'))
    out.append(('hoist_candidate', b'a="xy";b="xy"'))
    return out


def run_case(case):
    import python_minifier as pm
    src = base64.b64decode(case['src_b64'])
    flags = case['flags']
    mode = case['mode']
    res = {'status': 'held', 'violations': [], 'counters': {'cli_runs': 0}, 'nontrivial': []}
    try:
        api = pm.minify(src, **cli_model.api_kwargs(flags, [], pm)).encode('utf-8')
    except Exception as e:
        api = None
    for env_name, fbe in (('unset', None), ('override', '1')) if case.get('both') else (('unset', None),):
        d = tempfile.mkdtemp(prefix='vf_c14_')
        try:
            with open(os.path.join(d, 'mod.py'), 'wb') as f:
                f.write(src)
            if mode in ('output', 'stdin_output') and case.get('stale_output', True):
                # an earlier, longer result is already at the --output path: it must be replaced, not overwritten in part
                with open(os.path.join(d, 'out.py'), 'wb') as f:
                    f.write(b'# stale content of an earlier run ' + b'#' * (len(src) + 160) + b'\n')
                res['counters']['stale_output_files'] = res['counters'].get('stale_output_files', 0) + 1
            argv = list(flags)
            stdin = None
            if mode == 'stdout':
                argv = ['mod.py'] + argv
            elif mode == 'output':
                argv = ['mod.py', '--output', 'out.py'] + argv
            elif mode == 'in_place':
                argv = argv + ['--in-place', 'mod.py']
            elif mode == 'stdin':
                argv = argv + ['-']
                stdin = src
            else:
                argv = ['-', '-o', 'out.py'] + argv
                stdin = src
            extra = {'PYMINIFY_FORCE': '1', 'FORCE_BEST_EFFORT': '1', 'PYMINIFY_VERBOSE': '1'} if case.get('decoy_env') else None
            rc, out, err = cli.run_cli(argv, d, stdin=stdin, force_best_effort=fbe, env_extra=extra, python=case.get('python'))
            if case.get('python'):
                # another interpreter runs the tool: its API result is its own business, the size clause is not
                res['counters']['cli_runs'] += 1
                after = cli.snapshot(d)
                written = out if mode in ('stdout', 'stdin') else (after.get('out.py', (None, None))[1] if mode in ('output', 'stdin_output') else after.get('mod.py', (None, None))[1])
                if rc == 0 and written is not None:
                    res['counters']['cross_interpreter_size_checks'] = res['counters'].get('cross_interpreter_size_checks', 0) + 1
                    if len(written) > len(src):
                        res['violations'].append({'mech': None, 'detail': '[%s, tool running in %s] %s: wrote %d bytes > %d read' % (mode, case.get('interpreter'), ' '.join(argv), len(written), len(src)), 'witness': {}})
                    elif written != src:
                        res['nontrivial'].append('x|%s|%s|%s' % (case.get('interpreter'), case['name'], mode))
                continue
            res['counters']['cli_runs'] += 1
            after = cli.snapshot(d)
            if mode in ('stdout', 'stdin'):
                written = out
            elif mode in ('output', 'stdin_output'):
                written = after.get('out.py', (None, None))[1]
            else:
                written = after.get('mod.py', (None, None))[1]
            tag = '[%s env=%s] %s (%d bytes in)' % (mode, env_name, ' '.join(argv), len(src))
            if api is None:
                if rc == 0:
                    res['violations'].append({'mech': None, 'detail': tag + ': API raises but tool exits 0', 'witness': {}})
                continue
            if rc != 0:
                res['violations'].append({'mech': None, 'detail': tag + ': exit %d %r' % (rc, err[-200:]), 'witness': {}})
                continue
            if written is None:
                res['violations'].append({'mech': None, 'detail': tag + ': nothing written', 'witness': {}})
                continue
            grows = len(api) > len(src)
            if env_name == 'unset':
                if len(written) > len(src):
                    res['violations'].append({'mech': None, 'detail': tag + ': wrote %d bytes > %d read' % (len(written), len(src)), 'witness': {}})
                elif grows and written != src:
                    res['violations'].append({'mech': None, 'detail': tag + ': minified would be larger (%d) but the original was not passed through: %r' % (
                        len(api), written[:80]), 'witness': {}})
                elif not grows and written != api:
                    res['violations'].append({'mech': None, 'detail': tag + ': minified is not larger (%d) but was not written: %r' % (len(api), written[:80]), 'witness': {}})
                else:
                    res['nontrivial'].append('%s|%s|%s|%s' % (case['name'], mode, 'grows' if grows else 'shrinks', ' '.join(flags)))
                    if grows:
                        res['counters']['passed_through_because_larger'] = res['counters'].get('passed_through_because_larger', 0) + 1
                        if (len(api) - len(src)) * 100 < len(src):
                            res['counters']['passed_through_growth_under_1_percent'] = res['counters'].get('passed_through_growth_under_1_percent', 0) + 1
                    else:
                        res['counters']['minified_written'] = res['counters'].get('minified_written', 0) + 1
            else:
                if written != api:
                    res['violations'].append({'mech': None, 'detail': tag + ': with the documented override the minified form must be written as is', 'witness': {}})
                else:
                    res['counters']['override_runs'] = res['counters'].get('override_runs', 0) + 1
        finally:
            shutil.rmtree(d, ignore_errors=True)
    if res['violations']:
        res['status'] = 'violation'
    elif case.get('want_sample'):
        res['sample'] = {'name': case['name'], 'mode': mode, 'flags': flags, 'bytes_in': len(src), 'api_bytes': None if api is None else len(api)}
    return res


def margin_growers(tier):
    """already-minified modules of 100 .. several thousand bytes plus a string of 1-3 raw tabs: the minified form is longer by a byte or two
    (well under 1 %), so a size test that rounds, or compares something other than byte counts, lets it through"""
    import python_minifier as pm
    out = []
    pool_ = [(t, s_) for t, s_ in seeds.all_seeds() if not t.startswith(('d8', 'd12', 'd7', 'd9', 'd16', 'd17', 'd6'))]
    for tag, text in pool_[:: (4 if tier == 'quick' else 1)]:
        try:
            m = pm.minify(text)
            if pm.minify(m) != m or len(m) < 60:
                continue
        except Exception:
            continue
        for k in (1, 2, 3):
            out.append(('margin+%d:%s' % (k, tag), (m + '\nzq="' + '\t' * k + '"').encode('utf-8')))
    return out


def gen_cases(tier, seed):
    r = common.rng(seed, 'C14')
    srcs = list(growers()) + margin_growers(tier)
    enc = encgen.cases(seed, 60 if tier == 'quick' else 600)
    for c in enc:
        srcs.append((c['shape'], c['data']))
    for tag, s in seeds.all_seeds():
        if tag.startswith(('d8', 'd12', 'd7', 'd9', 'd16', 'd17', 'd6')):
            continue
        srcs.append(('seed:' + tag, s.encode('utf-8')))
    cases = []
    i = 0
    for name, b in srcs:
        reps = 2 if (tier == 'quick' and not name.startswith('enc.')) else (1 if tier == 'quick' else 4)
        for k in range(reps):
            flags = [] if k == 0 else cli_model.flags_of(r.getrandbits(cli_model.NFLAGS))
            if cli_model.invalid(flags):
                flags.remove('--no-remove-annotations')
            cases.append({'name': name, 'src_b64': base64.b64encode(b).decode(), 'flags': flags, 'mode': MODES[i % len(MODES)],
                          'both': i % 4 == 0, 'decoy_env': i % 3 == 0, 'want_sample': i % 41 == 0, 'timeout': 100})
            i += 1
    return cases


def main(tier, seed):
    run = runner.Run(PROP, tier, seed)
    assert 'PYMINIFY_FORCE_BEST_EFFORT' not in common.clean_env()

    def on(c, r):
        slim = {'name': c['name'], 'flags': c['flags'], 'mode': c['mode']}
        if r.get('status') == 'violation':
            slim['src_b64'] = c['src_b64']
        run.add(slim, r)
    pool.run_cases(gen_cases(tier, seed), 'vf.props.C14:run_case', timeout=120, batch=2, on_result=on, deadline=run.deadline)
    # the growers again with the tool running in the other interpreters: whatever that interpreter's minifier produces, it may not be larger than what was read
    interp = dict(common.interpreters())
    xs = []
    gl = [(n, b) for n, b in growers() + margin_growers(tier) if not n.startswith(('sjis', 'koi8', 'cp1252', 'latin1'))]
    for i, (name, b) in enumerate(gl):
        for version in (['2.7.18', '3.6.15', '3.9.18', '3.13.0'] if tier == 'quick' else [v for v in interp if v != '3.12-venv']):
            if version in interp:
                xs.append({'name': name, 'src_b64': base64.b64encode(b).decode(), 'flags': [], 'mode': MODES[(i + len(version)) % len(MODES)], 'python': interp[version], 'interpreter': version,
                           'stale_output': True, 'timeout': 100})

    def on_x(c, r):
        slim = {'name': c['name'], 'flags': c['flags'], 'mode': c['mode'], 'interpreter': c['interpreter'], 'python': c['python']}
        if r.get('status') == 'violation':
            slim['src_b64'] = c['src_b64']
        run.add(slim, r)
    pool.run_cases(xs, 'vf.props.C14:run_case', timeout=120, batch=3, on_result=on_x, deadline=run.deadline)
    return run.finish(
        rule='tiny / empty / comment-only / already-minimal sources, sources whose UTF-8 re-encoding grows (latin-1, cp1252, shift_jis, '
             'koi8-r cookies; raw control characters), the encoding x newline x shebang grid and the seeds x random flag sets x five output '
             'modes, with PYMINIFY_FORCE_BEST_EFFORT absent (and decoy variables present); a second pass with the override; '
             'non-trivial/distinct = distinct (source, mode, grows/shrinks, flags) runs compared byte for byte',
        assumptions=['UTF-8 of minify(bytes, **documented kwargs) is "the minified form"'],
        min_nontrivial=40, required_counters=['cli_runs', 'passed_through_because_larger', 'passed_through_growth_under_1_percent', 'minified_written', 'override_runs', 'stale_output_files', 'cross_interpreter_size_checks'])


def replay(path):
    w = runner.load_replay(path)
    c = w['case']
    r = run_case({'name': c['name'], 'src_b64': c['src_b64'], 'flags': c['flags'], 'mode': c['mode'], 'both': True})
    print(json.dumps(r, indent=1)[:3000])
    if r.get('violations'):
        print('VIOLATION property=%s replay=%s' % (PROP, path))
        return 1
    return 0
