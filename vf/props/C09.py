"""C09 - dynamic name access freezes every name in the module.

Oracle: O3 with identity required: every identifier occurrence of the input appears unchanged in the output, no alias is introduced, and per
scope the bound-name sets are equal. Non-trivial = the same program without the trigger is renamed / hoisted (so freezing is observable).
"""
import base64

from vf import common, options, pool, runner
from vf.gen import taintgen
from vf.props import nameeng

PROP = 'C09'


def run_case(case):
    """wrapper: also minify the untainted base program to know whether freezing is observable"""
    import python_minifier as pm
    changes = False
    try:
        o = dict(case['opts'])
        out = pm.minify(case['base'], **common.opts_to_kwargs(o, pm))
        o2 = dict(o)
        o2['rename_locals'] = o2['rename_globals'] = o2['hoist_literals'] = False
        changes = out != pm.minify(case['base'], **common.opts_to_kwargs(o2, pm))
    except Exception:
        pass
    c = dict(case)
    c['untainted_changes'] = changes
    r = nameeng.run_case(c)
    if changes and isinstance(r.get('counters'), dict):
        r['counters']['base_program_is_renamed_or_hoisted_without_trigger'] = 1
    return r


def gen_cases(tier, seed):
    r = common.rng(seed, 'C09')
    cases = []
    for c in taintgen.cases(seed, 1500 if tier == 'quick' else 30000):
        o = options.default() if r.random() < 0.3 else options.random_set(r, 0.6)
        for k in ('rename_locals', 'rename_globals', 'hoist_literals', 'remove_builtin_exception_brackets'):
            o[k] = True if r.random() < 0.85 else o[k]
        if r.random() < 0.2:
            o['preserve_locals'] = ['local_value']
        if c['shape'].endswith('.annotation'):
            # a trigger that only occurs in an annotation the options remove is no longer in the module: outside the property
            o['remove_argument_annotations'] = False
        c = dict(c)
        c['opts'] = o
        c['prop'] = PROP
        cases.append(c)
    for i, c in enumerate(cases):
        c.setdefault('timeout', 150 if c.get('shape') in ('modgen', 'corpus') or str(c.get('shape')).startswith('exhaustion') else 40)
        c['want_sample'] = i % 400 == 0
    return cases


def main(tier, seed):
    run = runner.Run(PROP, tier, seed)

    def on(c, r):
        slim = {'shape': c['shape'], 'opts': c['opts']}
        if r.get('status') == 'violation' or 'inconclusive' in r:
            slim['src'] = c['src']
            slim['base'] = c['base']
        run.cell('trigger_x_position', c['shape'].split('.', 1)[1])
        run.add(slim, r)
    pool.run_cases(gen_cases(tier, seed), 'vf.props.C09:run_case', timeout=60, batch=6, on_result=on, deadline=run.deadline)
    return run.finish(
        rule='a program (hand-written, random module, literal-rich, scope shape) + one trigger {eval, exec, locals, globals, vars called or merely '
             'referenced; from m import *} at one of 20 positions (module, nested def, class body, lambda, decorator, default, comprehension, '
             'attribute base, f-string, after a local import, annotation, method, walrus ...), before or after the program, with every name-touching '
             'option mostly on; non-trivial/distinct = distinct (source, options) whose trigger-free base program is renamed or hoisted',
        assumptions=['the generated trigger name is never bound in the program, so it resolves to the builtin (checked with the scope resolver)'],
        min_nontrivial=100, required_counters=['matcher_runs', 'tainted_inputs', 'base_program_is_renamed_or_hoisted_without_trigger'])


def replay(path):
    w = runner.load_replay(path)
    c = dict(w['case'])
    c['prop'] = PROP
    r = run_case(c)
    import json
    print(json.dumps(r, indent=1, default=repr)[:3000])
    if r.get('violations'):
        print('VIOLATION property=%s replay=%s' % (PROP, path))
        return 1
    return 0
