"""C09 - dynamic name access freezes every name in the module.

Oracle: O3 with identity required: every identifier occurrence of the input appears unchanged in the output, no alias is introduced, and per
scope the bound-name sets are equal. Non-trivial = the same program without the trigger is renamed / hoisted (so freezing is observable).
"""
import base64

from vf import common, options, pool, runner
from vf.gen import taintgen
from vf.props import nameeng

PROP = 'C09'


def run_case(case):
    """wrapper: also minify the untainted base program to know whether freezing is observable"""
    import python_minifier as pm
    changes = False
    try:
        o = dict(case['opts'])
        out = pm.minify(case['base'], **common.opts_to_kwargs(o, pm))
        o2 = dict(o)
        o2['rename_locals'] = o2['rename_globals'] = o2['hoist_literals'] = False
        changes = out != pm.minify(case['base'], **common.opts_to_kwargs(o2, pm))
    except Exception:
        pass
    c = dict(case)
    c['untainted_changes'] = changes
    r = nameeng.run_case(c)
    if changes and isinstance(r.get('counters'), dict):
        r['counters']['base_program_is_renamed_or_hoisted_without_trigger'] = 1
    return r


def gen_cases(tier, seed):
    r = common.rng(seed, 'C09')
    cases = []
    for c in taintgen.cases(seed, 1500 if tier == 'quick' else 30000):
        o = options.default() if r.random() < 0.3 else options.random_set(r, 0.6)
        for k in ('rename_locals', 'rename_globals', 'hoist_literals', 'remove_builtin_exception_brackets'):
            o[k] = True if r.random() < 0.85 else o[k]
        if r.random() < 0.2:
            o['preserve_locals'] = ['local_value']
        if c['shape'].endswith('.annotation'):
            # a trigger that only occurs in an annotation the options remove is no longer in the module: outside the property
            o['remove_argument_annotations'] = False
        c = dict(c)
        c['opts'] = o
        c['prop'] = PROP
        cases.append(c)
    for i, c in enumerate(cases):
        c.setdefault('timeout', 150 if c.get('shape') in ('modgen', 'corpus') or str(c.get('shape')).startswith('exhaustion') else 40)
        c['want_sample'] = i % 400 == 0
    return cases


PY2_TAINTS = [
    "def runner(code_text):\n    exec code_text\n    local_value = 1\n    other_value = local_value + 1\n    return local_value, other_value\nprint runner('pass')\n",
    "def runner(code_text, namespace_dict):\n    exec code_text in namespace_dict\n    local_value = 'a repeated literal value'\n    return local_value, 'a repeated literal value', 'a repeated literal value'\n",
    "class Holder:\n    def method(self, argument_value):\n        exec 'pass'\n        inner_value = argument_value\n        return inner_value\n",
    "def importer():\n    from os.path import *\n    joined_value = join('a', 'b')\n    return joined_value\nprint importer()\n",
    "def outer_function():\n    def inner_function(parameter_value):\n        exec 'x = 1'\n        return parameter_value\n    return inner_function(1)\nmodule_level_value = outer_function()\n",
    "module_value = 1\ndef reader():\n    local_copy = module_value\n    return local_copy\nexec 'module_value = 2'\nprint reader()\n",
]


def cross_version_cases(seed, n):
    r = common.rng(seed, 'C09-x')
    out = []
    for s in PY2_TAINTS:
        for j in range(3):
            o = dict(rename_locals=True, rename_globals=r.random() < 0.7, hoist_literals=True)
            out.append({'op': 'frozen', 'shape': 'py2-taint', 'src': s, 'opts': o})
    # positions that exist only on newer interpreters (uncompilable elsewhere: skipped there)
    newer = ["def taint_generic[T: {T}](argument_value: T):\n    local_value = argument_value\n    return local_value",
             "def taint_generic_default[T = {T}](argument_value: T):\n    local_value = argument_value\n    return local_value",
             "class TaintGeneric[*Ts = *{T}]:\n    def method(self, argument_value):\n        local_value = argument_value\n        return local_value",
             "type TaintAlias[T = {T}] = list[T]\ndef after_alias(argument_value):\n    local_value = argument_value\n    return local_value",
             "def taint_match(argument_value):\n    local_value = argument_value\n    match argument_value:\n        case int() if {T}:\n            return local_value",
             "def taint_except_star(argument_value):\n    local_value = argument_value\n    try:\n        pass\n    except* ValueError:\n        return {T}\n    return local_value",
             "def taint_walrus(argument_value):\n    return [(local_value := argument_value), {T}]",
             "def taint_posonly(argument_value, /, other_value={T}):\n    local_value = argument_value\n    return local_value, other_value",
             "taint_text = f'{{T}!r}'\ndef after_fstring(argument_value):\n    local_value = argument_value\n    return local_value"]
    for tmpl in newer:
        for trig in taintgen.TRIGGER_EXPRS:
            base = taintgen.BASE_PROGRAMS[0]
            out.append({'op': 'frozen', 'shape': 'taint.newer', 'src': base + tmpl.replace('{T}', trig) + '\n',
                        'opts': dict(rename_locals=True, rename_globals=True, hoist_literals=True, remove_argument_annotations=False)})
    for i in range(n):
        base = r.choice(taintgen.BASE_PROGRAMS)
        trig = r.choice(taintgen.TRIGGER_EXPRS)
        tag, tmpl = r.choice([p for p in taintgen.POSITIONS if p[0] not in ('fstring', 'walrus', 'annotation')])
        chunk = tmpl.replace('{T}', trig).replace('{C}', taintgen.call_of(trig))
        out.append({'op': 'frozen', 'shape': 'taint.%s.%s' % (trig, tag), 'src': base + chunk + '\n',
                    'opts': dict(rename_locals=True, rename_globals=r.random() < 0.7, hoist_literals=True, remove_argument_annotations=False)})
    return out


def main(tier, seed):
    run = runner.Run(PROP, tier, seed)
    # ---- every interpreter: identifiers frozen (covers the python 2 exec statement and function-level star imports)
    import os as _os
    xcases = cross_version_cases(seed, 120 if tier == 'quick' else 1500)
    for version, py in common.interpreters():
        if version == '3.12-venv':
            continue
        if tier == 'quick' and version not in ('2.7.18', '3.6.15', '3.9.18', '3.13.0'):
            continue

        def on_x(c, r, version=version):
            out = {'status': r.get('status'), 'reason': r.get('reason'), 'violations': [], 'counters': {}, 'nontrivial': []}
            if 'inconclusive' in r and r.get('status') is None:
                out = r
            if r.get('status') == 'error':
                out = {'status': 'inconclusive', 'reason': 'minify raised (C08)'}
            if r.get('status') == 'held':
                out['counters']['cross_version_frozen_checks'] = 1
                out['nontrivial'] = ['x|%s|%s' % (version, common.sha(c['src']))]
            for v in r.get('violations') or []:
                out['violations'].append({'mech': None, 'detail': '%s: tainted module but %s' % (version, v['detail']), 'witness': {'out': r.get('out'), 'interpreter': version}})
            run.add({'shape': c['shape'], 'interpreter': version, 'src': c['src'], 'opts': c['opts'], 'layer': 'cross-version'}, out)
        env = common.clean_env()
        env['PYTHONPATH'] = common.REPO_SRC
        pool.run_cases(xcases, None, cmd=[py, '-W', 'ignore', _os.path.join(common.VERIF, 'vf', 'compat_worker.py')], env=env, timeout=20, batch=25, on_result=on_x,
                       deadline=run.deadline)

    def on(c, r):
        slim = {'shape': c['shape'], 'opts': c['opts']}
        if r.get('status') == 'violation' or 'inconclusive' in r:
            slim['src'] = c['src']
            slim['base'] = c['base']
        run.cell('trigger_x_position', c['shape'].split('.', 1)[1])
        run.add(slim, r)
    pool.run_cases(gen_cases(tier, seed), 'vf.props.C09:run_case', timeout=60, batch=6, on_result=on, deadline=run.deadline)
    return run.finish(
        rule='a program (hand-written, random module, literal-rich, scope shape) + one trigger {eval, exec, locals, globals, vars called or merely '
             'referenced; from m import *} at one of 20 positions (module, nested def, class body, lambda, decorator, default, comprehension, '
             'attribute base, f-string, after a local import, annotation, method, walrus ...), before or after the program, with every name-touching '
             'option mostly on; non-trivial/distinct = distinct (source, options) whose trigger-free base program is renamed or hoisted',
        assumptions=['the generated trigger name is never bound in the program, so it resolves to the builtin (checked with the scope resolver)'],
        min_nontrivial=100, required_counters=['matcher_runs', 'tainted_inputs', 'base_program_is_renamed_or_hoisted_without_trigger', 'cross_version_frozen_checks'])


def replay(path):
    w = runner.load_replay(path)
    c = dict(w['case'])
    if c.get('layer') == 'cross-version':
        import json
        import subprocess
        import os as _os
        py = dict(common.interpreters())[c['interpreter']]
        env = common.clean_env()
        env['PYTHONPATH'] = common.REPO_SRC
        p = subprocess.run([py, '-W', 'ignore', _os.path.join(common.VERIF, 'vf', 'compat_worker.py')],
                           input=(json.dumps({'batch': [{'op': 'frozen', 'src': c['src'], 'opts': c['opts']}]}) + '\n').encode(), stdout=subprocess.PIPE, env=env, timeout=120)
        r = json.loads(p.stdout.decode())['batch'][0]
        print(json.dumps(r, indent=1)[:2000])
        if r.get('violations'):
            print('VIOLATION property=%s replay=%s' % (PROP, path))
            return 1
        return 0
    c['prop'] = PROP
    r = run_case(c)
    import json
    print(json.dumps(r, indent=1, default=repr)[:3000])
    if r.get('violations'):
        print('VIOLATION property=%s replay=%s' % (PROP, path))
        return 1
    return 0
