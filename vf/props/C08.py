"""C08 - every compilable module is minified without error into a compilable module; invalid -> SyntaxError.

Monitor: minify() outcome (returned / exception type + raising site) and compile() of the result, inside every
interpreter present, over the union workload x option sets from the 2^18 lattice samplers.
"""
import ast
import base64
import json
import os
import re

from vf import common, options, pool, runner
from vf.gen import union

PROP = 'C08'


def _src_text(c):
    if 'src' in c:
        return c['src']
    return base64.b64decode(c['src_b64']).decode('utf-8', 'replace')


def hard_nested_literal(v, field):
    """the literals the known finding is about: ones that cannot be written without a backslash or with the quotes left over inside a replacement
    field (control characters, backslash, NUL, non-ASCII bytes, quote characters)"""
    chars = v if isinstance(v, str) else v.decode('latin-1')
    if any(ord(c) < 0x20 or c in '\\\x7f' or (isinstance(v, bytes) and ord(c) >= 0x80) for c in chars):
        return True
    if "'" in chars or '"' in chars:
        return True
    return False


def classify(c, r, version=''):
    """Mechanism keys (known_findings.txt). Predicates look at the input's tree and the failure record."""
    exc = r.get('exc') or {}
    kind = r.get('kind')
    detail = (r.get('detail') or '') + ' ' + exc.get('msg', '')
    src = _src_text(c)
    try:
        tree = ast.parse(src)
    except Exception:
        tree = None
    nodes = list(ast.walk(tree)) if tree is not None else []
    if kind == 'raised' and exc.get('type') == 'ValueError' and 'Unable to create representation for f-string' in detail:
        def needs_escape(text, also=''):
            return any(ord(ch) < 0x20 or ch in '\\\x7f' + also or ord(ch) > 0x7e for ch in text)
        for n in nodes:
            if isinstance(n, ast.FormattedValue) and n.format_spec is not None:
                # literal text of a format spec that cannot be written as it stands (backslash, control or non-ASCII characters, braces)
                for k in (n.format_spec.values if isinstance(n.format_spec, ast.JoinedStr) else [n.format_spec]):
                    if isinstance(k, ast.Constant) and isinstance(k.value, str) and needs_escape(k.value, '{}'):
                        return 'C08.fstring.format_spec_text_needs_escape'
        for n in nodes:
            if isinstance(n, ast.FormattedValue):
                # literal text of an f-string nested in a replacement field (possible from 3.12 on) that needs a backslash escape or holds quotes
                for k in ast.walk(n.value):
                    if isinstance(k, ast.JoinedStr):
                        for t in k.values:
                            if isinstance(t, ast.Constant) and isinstance(t.value, str) and needs_escape(t.value, '\'"'):
                                return 'C08.fstring.nested_fstring_text_needs_escape'
        for n in nodes:
            if isinstance(n, ast.JoinedStr):
                for m in ast.walk(n):
                    if isinstance(m, ast.FormattedValue):
                        for k in ast.walk(m.value):
                            if isinstance(k, ast.Constant) and isinstance(k.value, (bytes, str)) and hard_nested_literal(k.value, m.value):
                                return 'C08.fstring.nested_literal_unrepresentable'
    if kind == 'raised' and exc.get('type') in ('RecursionError', 'RuntimeError') and 'recursion' in detail.lower() and (r.get('ast_depth') or 0) >= 100:
        return 'C08.recursion.deep_nesting'
    if kind == 'raised' and exc.get('type') == 'ValueError' and 'integer string conversion' in detail:
        return 'C08.int.decimal_limit'
    if kind == 'raised' and exc.get('type') == 'UnstableMinification':
        for n in nodes:
            if isinstance(n, (ast.With, ast.AsyncWith)) and len(n.items) == 1 and isinstance(n.items[0].context_expr, ast.Tuple) \
                    and n.items[0].context_expr.elts and n.items[0].optional_vars is None:
                return 'C02.with.parenthesised_tuple'
            if isinstance(n, getattr(ast, 'match_case', ())) and isinstance(n.guard, (ast.Tuple, ast.Yield, ast.YieldFrom)):
                return 'C02.match.guard_needs_parentheses'
    if kind == 'output-does-not-compile' and 'cannot rebind comprehension iteration variable' in detail:
        return 'C03.walrus.comprehension_collision'
    if kind == 'output-does-not-compile' and 'no binding for nonlocal' in detail and (c['opts'].get('remove_debug') or c['opts'].get('remove_asserts')):
        # attribution: with the two statement-removing unsafe options off the output compiles
        try:
            import python_minifier as pm
            o2 = dict(c['opts'])
            o2['remove_debug'] = False
            o2['remove_asserts'] = False
            compile(pm.minify(src, **common.opts_to_kwargs(o2, pm)), 'o', 'exec')
            return 'C08.remove_debug.removes_only_binding_of_nonlocal'
        except Exception:
            return None
    if kind == 'raised' and exc.get('type') == 'UnstableMinification' and str(version).startswith('2.') and re.search(r'(^|\n)\s*exec\b', src):
        return 'C02.py2.exec_operand_parentheses'
    if kind == 'raised' and exc.get('type') == 'UnstableMinification' and str(version).startswith('2.') and re.search(r'\*\*\s*\(\s*\(', src):
        return 'C02.py2.call_kwargs_parentheses'
    if kind == 'raised' and exc.get('type') == 'UnicodeDecodeError' and '_find_shebang' in exc.get('site', ''):
        return 'C16.shebang.non_utf8_bytes'
    return None


def gen_cases(tier, seed):
    r = common.rng(seed, 'C08-opts')
    std = options.standard_sets()
    pw = options.pairwise()
    cases = []
    k = 0
    for c in union.sources(tier, seed):
        nopt = 3 if tier == 'quick' else 6
        if c['shape'] == 'corpus':
            nopt = 1 if tier == 'quick' else 3
        if c['shape'].startswith('seed:'):
            sets = [('default', options.default()), ('all_on', options.all_on())] + [std[(k + j) % len(std)] for j in range(nopt)]
        else:
            sets = []
            for j in range(nopt):
                m = (k + j) % 4
                if m == 0:
                    sets.append(std[(k * 7 + j) % len(std)])
                elif m == 1:
                    sets.append(('pair', pw[(k + j) % len(pw)]))
                else:
                    sets.append(('rand', options.random_set(r, r.choice([0.3, 0.5, 0.8]))))
        for name, o in sets:
            o = dict(o)
            if r.random() < 0.2:
                o['preserve_locals'] = r.sample(['a', 'b', 'x', 'value', 'A', 'len', 'self', 'nosuch'], 2)
            if r.random() < 0.2:
                o['preserve_globals'] = r.choice([['alpha', 'helper'], 'alpha', ['A', 'Widget', 'str']])
            d = dict(c)
            d['op'] = 'mc'
            d['opts'] = o
            d['optclass'] = options.classify(o)
            cases.append(d)
        k += 1
    # name-pool exhaustion: enough live names to reach the two-letter names where keywords (as if in is or) and builtins (id) would appear
    from vf.gen import scopegen
    for glob_ in (False, True):
        o = options.all_off()
        o['rename_globals' if glob_ else 'rename_locals'] = True
        cases.append({'shape': 'seed:exhaustion.%s' % ('globals' if glob_ else 'locals'), 'src': scopegen.exhaustion_case(1800 if tier == 'quick' else 2400, as_globals=glob_),
                      'op': 'mc', 'opts': o, 'optclass': 'single:rename', 'case_timeout': 120})
    n_inv = 300 if tier == 'quick' else 3000
    for c in union.invalid_sources(seed, n_inv):
        c['op'] = 'mc'
        c['opts'] = options.default() if r.random() < 0.5 else options.random_set(r)
        c['optclass'] = 'invalid'
        cases.append(c)
    return cases


def main(tier, seed):
    run = runner.Run(PROP, tier, seed)
    cases = gen_cases(tier, seed)
    interps = common.interpreters()
    per = {}
    for version, py in interps:
        if run.timed_out():
            run.count('interpreters_skipped_budget')
            continue
        cs = cases
        if version != '3.12-venv':
            frac = 6 if tier == 'quick' else 3
            cs = [c for i, c in enumerate(cases) if (i + len(version) + seed) % frac == 0 or c['shape'].startswith('seed:')]
        st = {'cases': 0, 'compilable': 0, 'invalid_rejected': 0}

        def on_result(c, r, version=version, st=st):
            st['cases'] += 1
            out = dict(r)
            slim = {'shape': c['shape'], 'file': c.get('file'), 'interpreter': version, 'opts': c['opts']}
            if r.get('status') == 'violation' or 'inconclusive' in r:
                if 'src' in c:
                    slim['src'] = c['src']
                elif 'src_b64' in c:
                    slim['src_b64'] = c['src_b64']
            if r.get('status') == 'held':
                if r.get('kind') == 'ok':
                    st['compilable'] += 1
                    run.nontrivial.add('%s|%s|%s' % (r.get('skeleton'), c['optclass'], version))
                    run.cell('shape_x_optclass', '%s|%s' % (c['shape'].split(':')[0], c['optclass'].split(':')[0]))
                else:
                    st['invalid_rejected'] += 1
                    run.count('invalid_sources_rejected_with_parser_exception')
            if r.get('status') == 'violation':
                mech = classify(c, r, version)
                out = {'status': 'violation', 'violations': [{
                    'mech': mech,
                    'detail': '%s %s %s %s' % (version, r.get('kind'), json.dumps(r.get('exc') or {}), r.get('detail') or ''),
                    'witness': {'interpreter': version, 'out': r.get('out'), 'kind': r.get('kind'), 'exc': r.get('exc')}}]}
            if r.get('status') == 'held' and st['cases'] % 1999 == 7:
                out['sample'] = {'interpreter': version, 'shape': c['shape'], 'opts': common.opts_key(c['opts']),
                                 'src': _src_text(c)[:160]}
            run.add(slim, out)

        env = common.clean_env()
        env['PYTHONPATH'] = common.REPO_SRC
        pool.run_cases(cs, None, cmd=[py, '-W', 'ignore', os.path.join(common.VERIF, 'vf', 'compat_worker.py')], env=env,
                       timeout=20.0, batch=25, on_result=on_result, deadline=run.deadline + 60)
        per[version] = st
    return run.finish(
        rule='union of all generators (expression triples, token adjacency, random expressions, constants, random compilable '
             'modules, seeds, real stdlib files) x option sets (standard, pairwise array, random, random preserve lists) x every '
             'interpreter present; plus mutated invalid sources; non-trivial/distinct = distinct (input AST skeleton, option-set '
             'class, interpreter) triples whose input compiled and whose output was compiled',
        assumptions=['compile() of the same interpreter decides "compilable"', 'sources that parse but do not compile are outside the property',
                     'RecursionError on very deep input is inconclusive (interpreter limit, not the property)'],
        extra={'interpreters': per}, min_nontrivial=200)


def replay(path):
    import subprocess
    w = runner.load_replay(path)
    c = w['case']
    version = c['interpreter']
    py = dict(common.interpreters())[version]
    case = {'op': 'mc', 'opts': c['opts']}
    if 'src' in c:
        case['src'] = c['src']
    else:
        case['src_b64'] = c['src_b64']
    env = common.clean_env()
    env['PYTHONPATH'] = common.REPO_SRC
    p = subprocess.run([py, '-W', 'ignore', os.path.join(common.VERIF, 'vf', 'compat_worker.py')],
                       input=(json.dumps({'batch': [case]}) + '\n').encode(), stdout=subprocess.PIPE, env=env, timeout=120)
    r = json.loads(p.stdout.decode())['batch'][0]
    print(json.dumps(r, indent=1)[:3000])
    if r.get('status') == 'violation':
        print('VIOLATION property=%s replay=%s' % (PROP, path))
        return 1
    return 0
