"""Shared engine for the matcher-decided properties C03 C04 C05 C06 C09 C10.

run_case(case): minify(src, opts) on the real code, then O3 (vf.oracle.matcher) + O2 (vf.oracle.scopes, validated against symtable
for this very input and output) decide the view of the property named in case['prop'].
"""
import ast
import os
import base64
import json
import re

from vf import common
from vf.oracle import matcher, scopes

C03_KINDS = {'two-bindings-merged', 'one-binding-split', 'free-name-captured-or-changed', 'bound-name-became-free', 'binding-scope-differs',
             'class-body-global-fallback-renamed', 'class-body-global-fallback-captured', 'nonlocal-resolution-differs', 'name-replaced-by-constant-alias',
             'occurrence-model-mismatch', 'alias-of-unbound-global', 'alias-of-compiler-special-name', 'alias-of-something-else', 'argument-rebinding-mixed'}
C06_KINDS = {'alias-rebound', 'alias-value-differs', 'literal-replaced-by-non-alias', 'alias-in-wrong-scope', 'alias-binds-elsewhere', 'alias-unresolved'}
C06_DIFFS = {'docstring-replaced-by-name', 'literal-replaced-inside-pattern', 'literal-replaced-inside-__slots__', 'fstring-text-replaced'}
TAINT_NAMES = ('exec', 'eval', 'locals', 'globals', 'vars')


def get_src(case):
    if 'src' in case:
        return case['src']
    return base64.b64decode(case['src_b64']).decode('utf-8', 'replace')


def tainted(tree, model):
    """the documented triggers: exec/eval/locals/globals/vars referred to as builtins, star import"""
    if model.star_import:
        return True
    for o in model.occ.values():
        if o.raw in TAINT_NAMES and o.binding and o.binding[0] == 'free':
            return True
    return False


def all_literal(tree):
    """names given as string literals in a list / tuple display bound to __all__ by a statement of the module scope - directly in the module body or
    inside its compound statements (if / try / with / for / while), not inside functions or classes"""
    names = []

    def walk(body):
        for node in body:
            tgt = None
            if isinstance(node, ast.Assign):
                if any(isinstance(t, ast.Name) and t.id == '__all__' for t in node.targets):
                    tgt = node.value
            elif isinstance(node, (ast.AugAssign, ast.AnnAssign)):
                if isinstance(node.target, ast.Name) and node.target.id == '__all__':
                    tgt = node.value
            if isinstance(tgt, (ast.List, ast.Tuple)):
                for e in tgt.elts:
                    if isinstance(e, ast.Constant) and isinstance(e.value, str):
                        names.append(e.value)
            if isinstance(node, (ast.FunctionDef, ast.AsyncFunctionDef, ast.ClassDef)):
                continue
            for f in ('body', 'orelse', 'finalbody'):
                sub = getattr(node, f, None)
                if isinstance(sub, list) and sub and isinstance(sub[0], ast.stmt):
                    walk(sub)
            for h in getattr(node, 'handlers', None) or []:
                walk(h.body)
            for c in getattr(node, 'cases', None) or []:
                walk(c.body)
    walk(tree.body)
    return names


def position_rules(ptree, qtree, opts=None, r=None):
    """docstrings stay the first statement of their body; from __future__ imports stay ahead of all other code"""
    out = []
    if r is not None and not (opts or {}).get('remove_literal_statements'):
        # bodies paired through the lock-step walk (scope correspondence), not by position in the file
        for pi, qi in sorted(r.scope_map.items()):
            pn_, qn_ = r.pmodel.scopes[pi].node, r.qmodel.scopes[qi].node
            a, b = getattr(pn_, 'body', None), getattr(qn_, 'body', None)
            if isinstance(a, list) and isinstance(b, list) and a and matcher.is_docstring_stmt(a[0]):
                if not (b and matcher.is_docstring_stmt(b[0]) and b[0].value.value == a[0].value.value):
                    out.append('the docstring of a %s body (%s) is no longer its first statement' % (type(pn_).__name__, r.pmodel.scopes[pi].name))
    seen_other = False
    for st in qtree.body:
        if isinstance(st, ast.ImportFrom) and st.module == '__future__':
            if seen_other:
                out.append('a from __future__ import is preceded by other code in the output')
        elif matcher.is_docstring_stmt(st) and not seen_other:
            continue
        else:
            seen_other = True
    return out


def docstring_changes(r, opts):
    """a body (module, def, class) has a docstring in the output exactly when it has that docstring in the input: removing the statements in front
    of a string statement (pass, assert, `if __debug__`, literals) must not promote it, and no option but remove_literal_statements may drop one"""
    out = []
    for pi, qi in sorted(r.scope_map.items()):
        pn_, qn_ = r.pmodel.scopes[pi].node, r.qmodel.scopes[qi].node
        if not isinstance(pn_, (ast.Module, ast.FunctionDef, ast.AsyncFunctionDef, ast.ClassDef)):
            continue
        a, b = getattr(pn_, 'body', None), getattr(qn_, 'body', None)
        if not (isinstance(a, list) and isinstance(b, list)):
            continue
        pd = a[0].value.value if a and matcher.is_docstring_stmt(a[0]) else None
        qd = b[0].value.value if b and matcher.is_docstring_stmt(b[0]) else None
        if qd is not None and pd is None:
            out.append('docstring-created: %s %s has no docstring in the input; in the output the string statement %r is its first statement (its __doc__)' % (
                type(pn_).__name__, r.pmodel.scopes[pi].name, qd[:40]))
        elif pd is not None and qd is None and not (opts or {}).get('remove_literal_statements'):
            out.append('docstring-lost: %s %s loses its docstring although remove_literal_statements is off' % (type(pn_).__name__, r.pmodel.scopes[pi].name))
        elif pd is not None and qd is not None and pd != qd:
            out.append('docstring-changed: %s %s' % (type(pn_).__name__, r.pmodel.scopes[pi].name))
    return out


def classify_c05(src, opts, diffs, pm):
    """mechanism keys for structural differences (known_findings.txt). Attribution = which single enabled option, when switched off,
    makes the case clean + a predicate over the input."""
    tree = ast.parse(src)
    kinds = set(d['kind'] for d in diffs)
    culprits = []
    for k in ('remove_debug', 'remove_literal_statements', 'remove_variable_annotations', 'remove_object_base', 'hoist_literals', 'constant_folding',
              'remove_explicit_return_none', 'remove_pass', 'combine_imports', 'remove_builtin_exception_brackets'):
        if opts.get(k):
            o2 = dict(opts)
            o2[k] = False
            try:
                out2 = pm.minify(src, **common.opts_to_kwargs(o2, pm))
                r2 = matcher.compare(src, out2, o2)
                if not r2.diffs:
                    culprits.append(k)
            except Exception:
                pass
    keys = set()
    if 'remove_debug' in culprits:
        for n in ast.walk(tree):
            if isinstance(n, ast.If):
                t = n.test
                documented = matcher.debug_test(t)
                if documented and n.orelse:
                    keys.add('C05.remove_debug.else_lost')
                if not documented and isinstance(t, ast.Compare) and len(t.ops) == 1 and isinstance(t.comparators[0], ast.Constant) and \
                        isinstance(t.comparators[0].value, bool) and not (isinstance(t.left, ast.Name) and t.left.id == '__debug__'):
                    keys.add('C05.remove_debug.non_debug_test')
    if 'remove_literal_statements' in culprits:
        if any(isinstance(n, ast.Name) and n.id == '__doc__' for n in ast.walk(tree)) and tree.body and matcher.is_docstring_stmt(tree.body[0]):
            keys.add('C05.literal_statements.doc_name')
    if 'remove_variable_annotations' in culprits and 'annotation-removed-where-not-allowed' in kinds:
        keys.add('C05.annotations.nested_class_attribute')
    if len(keys) == 1:
        return keys.pop(), culprits
    if len(keys) > 1:
        return '+'.join(sorted(keys)), culprits
    return None, culprits


def interface_multiset_diff(pn, qn):
    """keyword-argument names at call sites, attribute names, imported module / member names with their relative level: multisets over the
    normalised input and the normalised output (statements an enabled option may drop are gone from both)"""
    def bag(tree):
        kw, attr, imp = {}, {}, {}
        for n in ast.walk(tree):
            if isinstance(n, (ast.Call, ast.ClassDef)):
                for k in n.keywords:
                    if k.arg is not None:
                        kw[k.arg] = kw.get(k.arg, 0) + 1
            elif isinstance(n, ast.Attribute):
                attr[n.attr] = attr.get(n.attr, 0) + 1
            elif isinstance(n, ast.Import):
                for a in n.names:
                    key = 'import %s' % a.name
                    imp[key] = imp.get(key, 0) + 1
            elif isinstance(n, ast.ImportFrom):
                for a in n.names:
                    key = 'from %s%s import %s' % ('.' * (n.level or 0), n.module or '', a.name)
                    imp[key] = imp.get(key, 0) + 1
        return kw, attr, imp
    out = []
    for label, a, b in zip(('keyword-argument name', 'attribute name', 'import'), bag(pn), bag(qn)):
        for k in sorted(set(a) | set(b)):
            if a.get(k, 0) != b.get(k, 0):
                out.append('%s %r occurs %d times in the input and %d times in the output' % (label, k, a.get(k, 0), b.get(k, 0)))
    return out


def run_case(case):
    import python_minifier as pm
    prop = case['prop']
    src = get_src(case)
    opts = dict(case['opts'])
    res = {'status': 'held', 'violations': [], 'counters': {}, 'nontrivial': [], 'matrix': {}}

    def viol(mech, detail, **w):
        res['violations'].append({'mech': mech, 'detail': detail[:500], 'witness': w})

    out = None
    hook = False
    if prop == 'C03' and case.get('foreign_out') is None:
        from vf.monitor import probes
        hook = probes.install_renamer_hook()
        probes.take_records()
    try:
        ptree = ast.parse(src)
        compile(src, 'p', 'exec', dont_inherit=True)
    except Exception:
        return {'status': 'skip', 'reason': 'input does not compile'}
    if case.get('foreign_out') is not None:
        out = case['foreign_out']       # produced by the minifier running in another interpreter (case['interpreter'])
        res['counters']['foreign_outputs_compared'] = 1
    else:
        try:
            out = pm.minify(src, **common.opts_to_kwargs(opts, pm))
        except Exception as e:
            return {'status': 'skip', 'reason': 'minify raised %s (C08)' % type(e).__name__}
    changed = False
    # (i) the compiler, not merely the parser, accepts the output
    try:
        qtree = ast.parse(out)
        compile(out, 'q', 'exec', dont_inherit=True)
    except Exception as e:
        if prop == 'C03':
            msg = '%s: %s' % (type(e).__name__, e)
            mech = 'C03.walrus.comprehension_collision' if 'cannot rebind comprehension iteration variable' in msg else None
            if 'no binding for nonlocal' in msg and (opts.get('remove_debug') or opts.get('remove_asserts')):
                try:
                    o2 = dict(opts)
                    o2['remove_debug'] = o2['remove_asserts'] = False
                    compile(pm.minify(src, **common.opts_to_kwargs(o2, pm)), 'q', 'exec')
                    mech = 'C08.remove_debug.removes_only_binding_of_nonlocal'
                except Exception:
                    pass
            res['violations'].append({'mech': mech, 'detail': 'output rejected by the compiler: %s' % msg[:200], 'witness': {'out': out[:800]}})
            res['status'] = 'violation'
            return res
        return {'status': 'skip', 'reason': 'output does not compile (C03/C08)'}
    # oracle self-validation: my resolver against the interpreter's symbol tables, on this input and this output
    pm_raw = scopes.resolve(ptree)
    if pm_raw.unsupported:
        return {'status': 'inconclusive', 'reason': 'resolver-unsupported:' + pm_raw.unsupported[0]}
    pv = scopes.validate(pm_raw, src)
    qv = scopes.validate(scopes.resolve(qtree), out)
    if pv or qv:
        return {'status': 'inconclusive', 'reason': 'oracle-self-validation (symtable disagrees with the resolver)', 'inconclusive': None} if False else \
            {'status': 'inconclusive', 'reason': 'oracle-self-validation'}
    r = matcher.compare(src, out, opts, ptree=ptree, qtree=qtree)
    res['matrix']['rules_fired'] = dict(r.rules)
    res['counters']['matcher_runs'] = 1
    is_tainted = tainted(ptree, pm_raw)
    if is_tainted:
        res['counters']['tainted_inputs'] = 1

    # ------------------------------------------------------------------ C05
    if prop == 'C05':
        if r.diffs:
            mech, culprits = classify_c05(src, opts, r.diffs, pm)
            d = r.diffs[0]
            viol(mech, 'structural difference not explained by the enabled options: %s at %s: %s -> %s (options that explain it when off: %s)' % (
                d['kind'], d['path'], d['p'], d['q'], culprits), diffs=r.diffs[:5])
        fired = sorted(k for k in r.rules if k not in ('alias-block', 'hoisted-literal-use'))
        nt = out != src and (fired or any(opts.get(k) for k in ('remove_pass', 'combine_imports', 'remove_literal_statements')))
        if nt:
            res['nontrivial'].append(common.sha(src) + '|' + common.opts_key(opts))
        # non-trivial detection for the statement-level rules: compare with the all-off rendering
        if not r.diffs:
            for msg in docstring_changes(r, opts):
                viol('C05.docstring_created_by_removed_statements' if msg.startswith('docstring-created') else None, msg)
            res['counters']['docstring_position_checks'] = 1
        if is_tainted and opts.get('remove_builtin_exception_brackets') and r.rules.get('exception-brackets-removed') and pm_raw.star_import:
            viol(None, 'exception brackets removed in a module with a star import')
    # ------------------------------------------------------------------ structure needed beyond this point
    elif prop == 'C06' and any(d['kind'] in C06_DIFFS for d in r.diffs):
        for d in r.diffs:
            if d['kind'] in C06_DIFFS:
                viol(None, '%s at %s: %s -> %s' % (d['kind'], d['path'], d['p'], d['q']))
        res['status'] = 'violation'
        for v in res['violations']:
            v['witness']['out'] = out[:1500]
        return res
    elif prop == 'C04' and r.diffs:
        # the pairing is gone, but names that can never legitimately change or vanish are still comparable as multisets of the normalised trees
        lost = interface_multiset_diff(r.ptree_n, r.qtree_n)
        if lost:
            for msg in lost[:3]:
                viol(None, 'interface (multiset, structure differs): ' + msg)
            res['status'] = 'violation'
            for v in res['violations']:
                v['witness']['out'] = out[:1500]
            return res
        return {'status': 'inconclusive', 'reason': 'structure-differs (decided by C05)'}
    elif r.diffs:
        return {'status': 'inconclusive', 'reason': 'structure-differs (decided by C05)'}
    if prop == 'C03':
        if hook:
            for rec in probes.take_records():
                res['counters']['renamer_hook_invocations'] = res['counters'].get('renamer_hook_invocations', 0) + 1
                res['counters']['renamer_hook_bindings_checked'] = res['counters'].get('renamer_hook_bindings_checked', 0) + rec['bindings']
                for pr in rec['problems'][:3]:
                    viol(None, 'renamer hook invariant (auxiliary): ' + pr)
        elif case.get('foreign_out') is None:
            res['counters']['renamer_hook_not_attached'] = 1
        for p in r.problems:
            if p['kind'] in C03_KINDS:
                mech = None
                if p['kind'].startswith('class-body-global-fallback') and p.get('enclosing_function_binds'):
                    mech = 'C03.class_body.global_fallback_in_function'
                viol(mech, '%s: %s' % (p['kind'], p['detail']))
        if r.renames or r.aliases:
            res['nontrivial'].append(common.sha(src) + '|' + common.opts_key(opts))
            for rn in r.renames[:50]:
                res['matrix'].setdefault('renames_by_scope_kind', {})
                res['matrix']['renames_by_scope_kind'][rn['scope_kind']] = res['matrix']['renames_by_scope_kind'].get(rn['scope_kind'], 0) + 1
    if prop == 'C04':
        iv = matcher.interface_violations(r, opts)
        declared_global = set(n for node in ast.walk(ptree) if isinstance(node, ast.Global) for n in node.names)
        for p in iv:
            mech = None
            if p['kind'] == 'interface:never-bound-name' and p['detail'].split(' -> ')[0] in declared_global and opts.get('rename_globals'):
                mech = 'C04.global_declared_never_bound'
            viol(mech, '%s: %s' % (p['kind'], p['detail']))
        if r.renames or r.aliases:
            res['nontrivial'].append(common.sha(src) + '|' + common.opts_key(opts))
        res['counters']['identifier_pairs_checked'] = len(r.report.pairs)
    if prop == 'C06':
        for p in r.problems:
            if p['kind'] in C06_KINDS:
                viol(None, '%s: %s' % (p['kind'], p['detail']))
        for msg in position_rules(ptree, qtree, opts, r):
            viol(None, msg)
        consts = [a for a in r.aliases if a['kind'] == 'const']
        if consts:
            res['nontrivial'].append(common.sha(src) + '|' + common.opts_key(opts))
            for a in consts:
                m = res['matrix'].setdefault('aliases_by_type_and_scope', {})
                k = '%s@%s' % (a['value'][0], a['scope'])
                m[k] = m.get(k, 0) + 1
        res['counters']['constant_aliases'] = len(consts)
        res['counters']['hoisted_uses'] = r.rules.get('hoisted-literal-use', 0)
    if prop == 'C06' and r.diffs:
        pass
    if prop == 'C09':
        if not is_tainted:
            return {'status': 'skip', 'reason': 'generator bug: trigger does not resolve to the builtin'}
        names_changed = [(po, qo) for (po, qo) in _raw_pairs(r) if po != qo]
        for po, qo in names_changed[:5]:
            viol(None, 'tainted module but %s became %s' % (po, qo))
        only_alias = bool(r.aliases) and not names_changed
        for a in r.aliases[:5]:
            viol('C09.hoist.not_gated' if (a['kind'] == 'const' and only_alias) else None,
                 'tainted module but a new name %s was introduced (%s) in a %s scope' % (a['name'], a.get('value') or a.get('rhs'), a['scope']))
        # per scope the bound-name sets are equal
        for pi, qi in sorted(r.scope_map.items()):
            sp, sq = r.pmodel.scopes[pi], r.qmodel.scopes[qi]
            bp = set(n for n in sp.bound if any(o.key in r.paired_p for o in r.p_binders.get((pi, n), [])))
            bq = set(n for n in sq.bound if any(o.key in r.paired_q for o in r.q_binders.get((qi, n), [])))
            if bp != bq and not r.aliases and not names_changed:
                viol(None, 'scope %s binds %r only in the input and %r only in the output' % (sp.name, sorted(bp - bq)[:6], sorted(bq - bp)[:6]))
        if case.get('untainted_changes'):
            res['nontrivial'].append(common.sha(src) + '|' + common.opts_key(opts))
    if prop == 'C10':
        pl = opts.get('preserve_locals') or []
        pg = opts.get('preserve_globals') or []
        if isinstance(pl, str):
            pl = [pl]
        if isinstance(pg, str):
            pg = [pg]
        pg = set(pg) | set(all_literal(ptree)) | set(case.get('entrypoint_names') or [])
        pl = set(pl)
        for pkey, qkey, kind in r.report.pairs:
            po, qo = r.pmodel.occ.get(pkey), r.qmodel.occ.get(qkey)
            eb = r.effective.get(pkey, po.binding if po is not None else None)
            if po is None or qo is None or po.raw == qo.raw or not eb or eb[0] != 'b':
                continue
            sc = r.pmodel.scopes[eb[1]]
            if sc.kind == 'module' and po.raw in pg:
                viol(None, 'module-level name %s is to be preserved (preserve_globals / __all__ / entrypoint) but became %s' % (po.raw, qo.raw))
            if sc.kind != 'module' and po.raw in pl:
                viol(None, 'name %s in %s scope %s is in preserve_locals but became %s' % (po.raw, sc.kind, sc.name, qo.raw))
        # preserving breaks nothing else
        for p in r.problems:
            if p['kind'] in C03_KINDS and not p['kind'].startswith('class-body-global-fallback'):
                viol(None, 'with preserve lists: %s: %s' % (p['kind'], p['detail']))
        if case.get('renamed_without_preserve'):
            res['nontrivial'].append(common.sha(src) + '|' + common.opts_key(opts) + '|' + ','.join(sorted(pl)) + '|' + ','.join(sorted(pg)))
    if res['violations']:
        res['status'] = 'violation'
        res['violations'] = res['violations'][:5]
        for v in res['violations']:
            v['witness']['out'] = out[:1500]
    elif case.get('want_sample'):
        res['sample'] = {'shape': case.get('shape'), 'opts_on': [k for k in common.ALL_SWITCHES if opts.get(k)], 'src': src[:300], 'out': out[:200],
                         'renames': r.renames[:5], 'aliases': r.aliases[:3]}
    return res


def _raw_pairs(r):
    for pkey, qkey, kind in r.report.pairs:
        po, qo = r.pmodel.occ.get(pkey), r.qmodel.occ.get(qkey)
        if po is not None and qo is not None:
            yield po.raw, qo.raw


def foreign_layer(run, prop, cases, tier, versions=None, per_version=None):
    """The same (program, options) cases with the minifier running in other interpreters (different ast node classes and code paths below 3.8, other
    grammar gates above): stage 1 collects minify() outputs there, stage 2 decides them here with the same matcher views as the native cases."""
    from vf import pool
    if versions is None:
        versions = ['3.6.15', '3.7.16', '3.8.18', '3.10.13', '3.13.0'] if tier == 'quick' else ['3.6.15', '3.7.16', '3.8.18', '3.9.18', '3.10.13', '3.11.7', '3.13.0']
    interp = dict(common.interpreters())
    stage2 = []
    for vi, version in enumerate(versions):
        py = interp.get(version)
        if py is None or run.timed_out():
            continue
        sub = cases if per_version is None else [c for i, c in enumerate(cases) if (i + vi) % max(1, len(cases) // per_version) == 0]
        if version.startswith('3.6'):
            # dataclasses exist from 3.7 on; below that the minifier deliberately does not treat @dataclass as protecting (the repository's own
            # test_remove_dataclass pins this), so 'never from dataclass fields' has no subject there
            sub = [c for c in sub if 'dataclass' not in get_src(c)]
        ops = [{'op': 'minify', 'src': get_src(c), 'opts': c['opts'], 'case_timeout': 40, 'idx': i} for i, c in enumerate(sub)]

        def on1(o, r, version=version, sub=sub):
            if r.get('status') == 'ok':
                c = dict(sub[o['idx']])
                c['foreign_out'] = r['out']
                c['interpreter'] = version
                c['prop'] = prop
                c['want_sample'] = False
                stage2.append(c)
            elif r.get('status') == 'skip':
                run.skipped['foreign: ' + r.get('reason', 'skip')] = run.skipped.get('foreign: ' + r.get('reason', 'skip'), 0) + 1
            elif r.get('status') == 'error':
                run.skipped['foreign: minify raised there (C08)'] = run.skipped.get('foreign: minify raised there (C08)', 0) + 1
            else:
                run.inconclusive['foreign: no output from %s' % version] = run.inconclusive.get('foreign: no output from %s' % version, 0) + 1
        env = common.clean_env()
        env['PYTHONPATH'] = common.REPO_SRC
        pool.run_cases(ops, None, cmd=[py, '-W', 'ignore', os.path.join(common.VERIF, 'vf', 'compat_worker.py')], env=env, timeout=60, batch=20, on_result=on1,
                       deadline=run.deadline, nworkers=6)

    def on2(c, r):
        slim = {'shape': c.get('shape'), 'opts': c['opts'], 'interpreter': c['interpreter'], 'layer': 'foreign'}
        if r.get('status') == 'violation' or 'inconclusive' in r:
            slim['src'] = get_src(c) if isinstance(get_src(c), str) else None
            slim['src_b64'] = c.get('src_b64')
            for v in r.get('violations') or []:
                v['detail'] = '[minifier running in %s] %s' % (c['interpreter'], v.get('detail'))
        if r.get('status') in ('held', 'violation'):
            run.cell('foreign_interpreter', c['interpreter'])
        if r.get('nontrivial'):
            r['nontrivial'] = ['foreign|%s|%s' % (c['interpreter'], x) for x in r['nontrivial']]
        run.add(slim, r)
    pool.run_cases(stage2, 'vf.props.nameeng:run_case', timeout=60, batch=25, on_result=on2, deadline=run.deadline)


def replay_case(path, prop):
    from vf import runner
    w = runner.load_replay(path)
    c = dict(w['case'])
    c['prop'] = prop
    if c.get('layer') == 'foreign':
        fr = common.compat_single(c['interpreter'], {'op': 'minify', 'src': get_src(c), 'opts': c['opts'], 'case_timeout': 60})
        if fr.get('status') != 'ok':
            print('no foreign output: %r' % (fr,))
            return 0
        c['foreign_out'] = fr['out']
    r = run_case(c)
    print(json.dumps(r, indent=1, default=repr)[:4000])
    if r.get('violations'):
        print('VIOLATION property=%s replay=%s' % (prop, path))
        return 1
    return 0
