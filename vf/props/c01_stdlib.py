"""C01 thorough workload: stdlib unittest differential.

For a frozen list of pure-Python stdlib modules the default-minified module is shadowed onto sys.path and `python -m unittest -v test.test_<m>`
must give the same per-test outcomes as with the original module. The list (c01_stdlib_modules.json) holds only modules that agreed on the
unchanged tree three times in a row; excluded modules carry a recorded reason.

python -m vf.props.c01_stdlib --calibrate     rebuilds the list (not part of any check)
"""
import json
import os
import re
import shutil
import subprocess
import sys
import tempfile

from vf import common

PY = os.path.join(common.PYENV, '3.12.1', 'bin', 'python')
LIB = os.path.join(common.PYENV, '3.12.1', 'lib', 'python3.12')
LIST_FILE = os.path.join(os.path.dirname(os.path.abspath(__file__)), 'c01_stdlib_modules.json')

CANDIDATES = ['textwrap', 'statistics', 'fractions', 'ipaddress', 'enum', 'argparse', 'configparser', 'shlex', 'string', 'bisect', 'heapq', 'copy', 'pprint', 'reprlib',
              'colorsys', 'calendar', 'gettext', 'getopt', 'glob', 'fnmatch', 'keyword', 'numbers', 'queue', 'sched', 'stat', 'struct', 'types', 'uuid', 'base64', 'html',
              'csv', 'difflib', 'filecmp', 'fileinput', 'ntpath', 'posixpath', 'genericpath', 'graphlib', 'hmac', 'secrets', 'quopri', 'mimetypes', 'netrc', 'optparse',
              'plistlib', 'random', 'tabnanny', 'timeit', 'operator', 'functools', 'weakref', 'tokenize', 'dis', 'pickle', 'contextlib', 'dataclasses', 'linecache',
              'inspect', 'ast', 'typing', 'trace', 'abc', 'collections', 'datetime', 'decimal', 'cmd', 'code', 'codeop', 'compileall', 'dbm', 'opcode', 'pkgutil', 'poplib',
              'pyclbr', 'runpy', 'sndhdr', 'socketserver', 'stringprep', 'symtable', 'tempfile', 'this', 'tty', 'zipapp', 'bdb', 'chunk', 'cgi', 'crypt', 'shelve', 'smtplib',
              'string', 'sunau', 'telnetlib', 'textwrap', 'wave', 'xdrlib', 'zipimport', 'ftplib', 'imaplib', 'mailbox', 'mailcap', 'nntplib', 'pathlib', 'zoneinfo', 'locale',
              'modulefinder', 'netrc', 'nturl2path', 'pstats', 'py_compile', 'rlcompleter', 'selectors', 'signal', 'site', 'sre_parse', 'struct', 'threading', 'traceback',
              'warnings', '_pydecimal', '_pydatetime', '_pyio', '_strptime', '_collections_abc', '_compat_pickle', '_markupbase', '_osx_support', '_py_abc', '_sitebuiltins',
              '_threading_local', '_weakrefset']


def test_target(mod):
    name = mod.lstrip('_')
    for cand in ('test_' + mod, 'test_' + name):
        if os.path.exists(os.path.join(LIB, 'test', cand + '.py')) or os.path.isdir(os.path.join(LIB, 'test', cand)):
            return 'test.' + cand
    return None


def parse_results(text):
    res = {}
    for m in re.finditer(r'^(\S+) \(([^)]+)\)(?: \.\.\.|\n.*? \.\.\.)? ?(ok|FAIL|ERROR|skipped.*|expected failure|unexpected success)$', text, re.M):
        res[m.group(2) + '::' + m.group(1)] = m.group(3).split(' ')[0]
    m = re.search(r'^Ran (\d+) tests?', text, re.M)
    res['<ran>'] = m.group(1) if m else None
    res['<final>'] = 'OK' if re.search(r'^OK', text, re.M) else ('FAILED' if re.search(r'^FAILED', text, re.M) else 'none')
    return res


def run_module(mod, minified, timeout=240):
    """returns (results dict, seconds) for test.test_<mod> with the original or the default-minified module"""
    import time
    target = test_target(mod)
    src_path = os.path.join(LIB, mod + '.py')
    if target is None or not os.path.isfile(src_path):
        return None, 0
    tmp = tempfile.mkdtemp(prefix='vf_stdlib_')
    try:
        env = common.clean_env()
        env.pop('PYTHONPATH', None)
        if minified:
            env2 = common.clean_env()
            p = subprocess.run([common.VENV_PY, '-W', 'ignore', '-c',
                                'import sys, python_minifier as pm; s = open(sys.argv[1], "rb").read(); open(sys.argv[2], "w", encoding="utf-8").write(pm.minify(s, filename=sys.argv[1]))',
                                src_path, os.path.join(tmp, mod + '.py')], env=env2, stdout=subprocess.PIPE, stderr=subprocess.PIPE, timeout=120)
            if p.returncode != 0:
                return {'<minify-failed>': p.stderr.decode()[-200:]}, 0
            env['PYTHONPATH'] = tmp
        t0 = time.time()
        p = subprocess.run([PY, '-W', 'ignore', '-m', 'unittest', '-v', target], env=env, stdout=subprocess.PIPE, stderr=subprocess.STDOUT, timeout=timeout, cwd=tmp)
        return parse_results(p.stdout.decode('utf-8', 'replace')), time.time() - t0
    except subprocess.TimeoutExpired:
        return {'<timeout>': True}, timeout
    finally:
        shutil.rmtree(tmp, ignore_errors=True)


def run_case(case):
    """pool worker: one module, original vs minified"""
    mod = case['module']
    a, ta = run_module(mod, False)
    if a is None or '<timeout>' in a or not a.get('<ran>') or int(a['<ran>']) == 0:
        return {'status': 'skip', 'reason': 'stdlib differential: no usable baseline run for ' + mod}
    b, tb = run_module(mod, True)
    res = {'status': 'held', 'violations': [], 'counters': {'stdlib_modules_compared': 1, 'stdlib_unit_tests_compared': int(a['<ran>'])},
           'nontrivial': ['stdlib|' + mod]}
    if a != b:
        keys = sorted(k for k in set(a) | set(b) if a.get(k) != b.get(k))
        res['status'] = 'violation'
        res['violations'].append({'mech': None, 'detail': 'stdlib differential: %s: %d unittest outcomes differ with the default-minified module, e.g. %s: %r -> %r' % (
            mod, len(keys), keys[0], a.get(keys[0]), b.get(keys[0])), 'witness': {'module': mod, 'differing': keys[:10]}})
    else:
        res['sample'] = {'stdlib_module': mod, 'tests': a['<ran>'], 'seconds': round(ta + tb, 1)}
    return res


def frozen_list():
    if os.path.exists(LIST_FILE):
        return json.load(open(LIST_FILE))
    return {'modules': [], 'excluded': {}}


def calibrate():
    from vf import pool
    seen = []
    for m in CANDIDATES:
        if m not in seen:
            seen.append(m)
    good = {m: 0 for m in seen}
    reasons = {}
    times = {}
    for rnd in range(3):
        cases = [{'module': m, 'timeout': 600} for m in seen if good[m] == rnd]
        results, _ = pool.run_cases(cases, 'vf.props.c01_stdlib:run_case', timeout=700, batch=1, nworkers=12)
        for c, r in results:
            m = c['module']
            if r.get('status') == 'held':
                good[m] += 1
                times[m] = r.get('sample', {}).get('seconds')
            else:
                reasons[m] = (r.get('reason') or (r.get('violations') or [{}])[0].get('detail') or str(r.get('inconclusive')))[:300]
        print('round', rnd, 'agreeing so far', sum(1 for m in seen if good[m] == rnd + 1))
        sys.stdout.flush()
    mods = [m for m in seen if good[m] == 3]
    json.dump({'modules': mods, 'seconds': {m: times.get(m) for m in mods}, 'excluded': {m: reasons.get(m, 'no test module / not a single file module') for m in seen if good[m] < 3}},
              open(LIST_FILE, 'w'), indent=1, sort_keys=True)
    print('frozen list:', len(mods), 'modules; excluded', len(seen) - len(mods))


if __name__ == '__main__':
    if '--calibrate' in sys.argv:
        calibrate()
