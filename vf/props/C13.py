"""C13 - the command line tool writes exactly what the API would return.

Layer 1 (exhaustive): all 2^19 flag subsets through the real parse_args() and real do_minify() in-process with a recorder
        bound at python_minifier.__main__.minify; forwarded keyword arguments must equal O5's table.
Layer 2 (end to end): real subprocess `python -m python_minifier` for sampled flag sets x sources x output modes; the bytes
        written must equal UTF-8(minify(S, **O5(F))) subject to the size rule; invalid combinations exit non-zero, write nothing.
"""
import base64
import io
import json
import os
import shutil
import sys
import tempfile

from vf import cli, common, options, pool, runner
from vf.gen import modgen, seeds
from vf.oracle import cli_model

PROP = 'C13'

SENTINEL = '''#!/usr/bin/env python
"""module docstring"""
import os
import sys
from typing import NamedTuple
def long_function_name(argument_one: int, argument_two: str = 'repeated text', /, keyword_arg=None) -> int:
    """function docstring"""
    local_variable = 'repeated text' + 'repeated text' + 'repeated text' + 'repeated text'
    assert argument_one
    if __debug__:
        print('debugging')
    pass
    if argument_one:
        raise ValueError()
    value: int = 10 * 100
    return None
class SomeClass(object):
    attribute: int = 1
    def method(self):
        pass
global_variable_name = long_function_name(1, 'repeated text')
another_global_name = global_variable_name
print(another_global_name, global_variable_name, another_global_name)
'''


# ---------------------------------------------------------------- layer 1
def _record_kwargs(main_mod, argv, source=b'x = 1\n'):
    """run the real parse_args + do_minify with a recorder instead of minify; returns ('ok', kwargs) | ('exit', code)"""
    calls = []

    def recorder(source, **kwargs):
        calls.append(kwargs)
        return 'x=1'
    old_argv = sys.argv
    old_minify = main_mod.minify
    old_err = sys.stderr
    sys.argv = ['pyminify'] + argv
    main_mod.minify = recorder
    sys.stderr = io.StringIO()
    try:
        try:
            args = main_mod.parse_args()
        except SystemExit as e:
            return ('exit', e.code, len(calls))
        main_mod.do_minify(source, 'x.py', args)
    finally:
        sys.argv = old_argv
        main_mod.minify = old_minify
        sys.stderr = old_err
    if len(calls) != 1:
        return ('calls', len(calls), len(calls))
    return ('ok', calls[0], 1)


def _kwargs_to_flat(kw):
    o = {}
    for k in common.BOOL_OPTIONS:
        o[k] = kw.get(k, '<missing>')
    ra = kw.get('remove_annotations', '<missing>')
    if isinstance(ra, bool):
        for k in common.ANNOTATION_OPTIONS:
            o[k] = ra
    elif ra == '<missing>':
        for k in common.ANNOTATION_OPTIONS:
            o[k] = '<missing>'
    else:
        for k in common.ANNOTATION_OPTIONS:
            o[k] = getattr(ra, k, '<missing>')
    return o


def run_lattice(case):
    import python_minifier.__main__ as main_mod
    os.environ['PYMINIFY_FORCE_BEST_EFFORT'] = '1'      # layer 1 only looks at the forwarded arguments
    res = {'status': 'held', 'violations': [], 'counters': {'flag_sets': 0, 'invalid_rejected': 0, 'non_default_kwargs': 0}, 'nontrivial': []}
    default_flat = common.defaults()
    spellings = cli_model.PRESERVE_SPELLINGS
    for mask in range(case['lo'], case['hi']):
        flags = cli_model.flags_of(mask)
        which = [mask % len(spellings)] if case['tier'] == 'quick' else range(len(spellings))
        for si in which:
            pres = spellings[si][0]
            r = _record_kwargs(main_mod, ['x.py'] + flags + pres)
            res['counters']['flag_sets'] += 1
            if cli_model.invalid(flags):
                if r[0] != 'exit' or not r[1] or r[2] != 0:
                    res['violations'].append({'mech': None, 'detail': 'documented invalid combination accepted: %s -> %r' % (' '.join(flags), r[:2]),
                                              'witness': {'flags': flags}})
                else:
                    res['counters']['invalid_rejected'] += 1
                continue
            if r[0] != 'ok':
                res['violations'].append({'mech': None, 'detail': 'valid flag set %s -> %r' % (' '.join(flags), r[:2]), 'witness': {'flags': flags}})
                continue
            got = _kwargs_to_flat(r[1])
            want = cli_model.expected_options(flags)
            diffs = ['%s: forwarded %r, documented %r' % (k, got[k], want[k]) for k in common.ALL_SWITCHES if got[k] != want[k]]
            pl, pg = cli_model.preserve_of(pres)
            gpl = r[1].get('preserve_locals')
            gpg = r[1].get('preserve_globals')
            if set(x for x in (gpl or []) if x) != set(pl) or isinstance(gpl, str):
                diffs.append('preserve_locals: forwarded %r, documented %r' % (gpl, pl))
            if set(x for x in (gpg or []) if x) != set(pg) or isinstance(gpg, str):
                diffs.append('preserve_globals: forwarded %r, documented %r' % (gpg, pg))
            if diffs:
                if len(res['violations']) < 8:
                    res['violations'].append({'mech': None, 'detail': 'flags [%s] %s: %s' % (' '.join(flags), ' '.join(pres), '; '.join(diffs)[:400]),
                                              'witness': {'flags': flags, 'preserve': pres}})
            if want != default_flat:
                res['counters']['non_default_kwargs'] += 1
    res['nontrivial'] = ['lattice-%d-%d' % (case['lo'], case['hi'])]
    if res['violations']:
        res['status'] = 'violation'
    return res


# ---------------------------------------------------------------- layer 2
MODES = ['stdout', 'output', 'in_place', 'stdin', 'stdin_output']


def run_e2e(case):
    import python_minifier as pm
    src = base64.b64decode(case['src_b64'])
    flags = case['flags']
    pres = case['preserve']
    mode = case['mode']
    res = {'status': 'held', 'violations': [], 'counters': {'cli_runs': 1}, 'nontrivial': []}
    try:
        want = cli_model.expected_bytes(src, flags, pres, pm)
        api_exc = None
    except Exception as e:
        want = None
        api_exc = type(e).__name__
    d = tempfile.mkdtemp(prefix='vf_c13_')
    try:
        with open(os.path.join(d, 'mod.py'), 'wb') as f:
            f.write(src)
        if mode in ('output', 'stdin_output') and len(src) % 2:
            with open(os.path.join(d, 'out.py'), 'wb') as f:      # an earlier, longer result at the --output path
                f.write(b'# stale ' + b'#' * (len(src) + 100) + b'\n')
        before = cli.snapshot(d)
        argv = list(flags) + list(pres)
        stdin = None
        if mode == 'stdout':
            argv = ['mod.py'] + argv
        elif mode == 'output':
            argv = ['mod.py', '--output', 'out.py'] + argv
        elif mode == 'in_place':
            argv = argv + ['--in-place', 'mod.py']
        elif mode == 'stdin':
            argv = argv + ['-']
            stdin = src
        else:
            argv = ['-', '-o', 'out.py'] + argv
            stdin = src
        rc, out, err = cli.run_cli(argv, d, stdin=stdin)
        after = cli.snapshot(d)
        if mode in ('stdout', 'stdin'):
            written = out
        elif mode in ('output', 'stdin_output'):
            written = after.get('out.py', (None, None))[1]
        else:
            written = after.get('mod.py', (None, None))[1]
        detail = None
        if cli_model.invalid(flags):
            if rc == 0 or out or after != before:
                detail = 'invalid flag combination: rc=%d stdout=%r tree_changed=%s' % (rc, out[:80], after != before)
            else:
                res['counters']['invalid_rejected_e2e'] = 1
        elif api_exc is not None:
            if rc == 0:
                detail = 'API raises %s but the tool exits 0' % api_exc
        else:
            if rc != 0:
                detail = 'tool exit status %d, stderr %r' % (rc, err[-300:])
            elif written != want:
                detail = 'bytes written (%d) differ from UTF-8 of the API result / size rule (%d): %r vs %r' % (
                    len(written or b''), len(want), (written or b'')[:120], want[:120])
            else:
                others = {k: v for k, v in after.items() if k not in ('out.py',) and not (mode == 'in_place' and k == 'mod.py')}
                base = {k: v for k, v in before.items() if k != 'out.py' and not (mode == 'in_place' and k == 'mod.py')}
                if others != base:
                    detail = 'other files changed: %r' % sorted(set(after) ^ set(before))
                if mode in ('output', 'stdin_output', 'in_place') and out not in (b'', b'mod.py\n'):
                    detail = 'unexpected stdout %r' % out[:100]
                res['nontrivial'].append('%s|%s|%s' % (case['name'], ' '.join(flags + pres), mode))
        if detail:
            res['violations'].append({'mech': None, 'detail': '[%s] %s: %s' % (mode, ' '.join(argv), detail), 'witness': {'argv': argv}})
            res['status'] = 'violation'
        elif case.get('want_sample'):
            res['sample'] = {'argv': argv, 'source': case['name'], 'bytes_in': len(src), 'bytes_out': len(written or b''), 'rc': rc}
    finally:
        shutil.rmtree(d, ignore_errors=True)
    return res


MULTI_SRC = '''import collections
def first_function(alpha, beta=2):
    delta = alpha + beta
    spaced = delta * alpha + beta
    names = spaced - delta + alpha
    return alpha, beta, delta, spaced, names, gamma, epsilon
gamma = collections.OrderedDict()
epsilon = [gamma, gamma, gamma]
zeta = one = two = (gamma, epsilon, epsilon)
print(first_function(1), zeta, one, two, TAG)
'''


def run_multi(case):
    """several modules (paths and a directory) in one --in-place run: every file must equal what the API gives for that file with the same options"""
    import python_minifier as pm
    flags = case['flags']
    pres = case['preserve']
    res = {'status': 'held', 'violations': [], 'counters': {'cli_runs': 1, 'multi_file_runs': 1}, 'nontrivial': []}
    d = tempfile.mkdtemp(prefix='vf_c13m_')
    try:
        files = {}
        for i, rel in enumerate(['a_first.py', 'b_second.py', 'b_second_grows.py', os.path.join('pkg', 'c_third.py'), os.path.join('pkg', 'c_third_grows.py'), os.path.join('pkg', 'sub', 'd_fourth.pyw')]):
            src = (MULTI_SRC.replace('TAG', repr('file %d' % i)) + ('extra_%d = gamma\n' % i) * i).encode()
            if 'grows' in rel:
                src = b'EPSILON=1e-5' if (i == 2 or case.get('order', 0) % 2) else b'x=[]\ny=True if 0in x else False'      # minified form is longer: passed through, the run goes on (every other run: two byte-identical growers)
            os.makedirs(os.path.dirname(os.path.join(d, rel)) or d, exist_ok=True)
            with open(os.path.join(d, rel), 'wb') as f:
                f.write(src)
            files[rel] = src
        with open(os.path.join(d, 'pkg', 'notes.txt'), 'wb') as f:
            f.write(b'not python\n')
        before = cli.snapshot(d)
        order = case.get('order', 0)
        paths = [['a_first.py', 'b_second_grows.py', 'b_second.py', 'pkg'], ['pkg', 'b_second.py', 'b_second_grows.py', 'a_first.py'], ['.']][order % 3]
        argv = list(flags) + list(pres) + ['--in-place'] + paths if order % 2 == 0 else ['--in-place'] + paths + list(flags) + list(pres)
        rc, out, err = cli.run_cli(argv, d)
        after = cli.snapshot(d)
        detail = None
        if cli_model.invalid(flags):
            if rc == 0 or after != before:
                detail = 'invalid flag combination: rc=%d tree_changed=%s' % (rc, after != before)
            else:
                res['counters']['invalid_rejected_e2e'] = 1
        elif rc != 0:
            detail = 'tool exit status %d, stderr %r' % (rc, err[-300:])
        else:
            for rel, src in sorted(files.items()):
                want = cli_model.expected_bytes(src, flags, pres, pm)
                got = after.get(rel, (None, None))[1]
                if got != want:
                    detail = 'file %s (%d of %d in this run): bytes written differ from UTF-8 of the API result: %r vs %r' % (
                        rel, sorted(files).index(rel) + 1, len(files), (got or b'')[:160], want[:160])
                    break
            if detail is None and after.get(os.path.join('pkg', 'notes.txt')) != before.get(os.path.join('pkg', 'notes.txt')):
                detail = 'non-python file changed'
            if detail is None:
                res['nontrivial'].append('multi|%s|%d' % (' '.join(flags + pres), order))
        if detail:
            res['violations'].append({'mech': None, 'detail': '[multi] %s: %s' % (' '.join(argv), detail), 'witness': {'argv': argv}})
            res['status'] = 'violation'
        elif case.get('want_sample'):
            res['sample'] = {'argv': argv, 'files': sorted(files), 'rc': rc}
    finally:
        shutil.rmtree(d, ignore_errors=True)
    return res


def multi_cases(tier, seed):
    r = common.rng(seed, 'C13-multi')
    cases = []
    n = 40 if tier == 'quick' else 600
    for i in range(n):
        if i < 4:
            flags = [['--rename-globals'], [], ['--rename-globals', '--no-hoist-literals'], ['--no-rename-locals']][i]
        else:
            flags = [f for f in cli_model.flags_of(r.getrandbits(cli_model.NFLAGS)) if r.random() < 0.4]
            if r.random() < 0.6 and '--rename-globals' not in flags:
                flags.append('--rename-globals')
        pres = cli_model.PRESERVE_SPELLINGS[1 + i % 3][0] if i % 5 else []
        cases.append({'flags': flags, 'preserve': pres, 'order': i, 'want_sample': i % 17 == 0, 'timeout': 100})
    return cases


INVALID_ARGVS = [
    (['-', 'mod.py'], 'stdin with other paths'),
    (['-', '--in-place'], 'stdin with --in-place'),
    (['mod.py', 'mod.py'], 'several paths without --in-place'),
    (['.'], 'directory without --in-place'),
    (['mod.py', '--output', 'out.py', '--in-place'], '--output with --in-place'),
    (['mod.py', '--remove-class-attribute-annotations', '--no-remove-annotations'], 'class-attribute flag with annotations off'),
    (['mod.py', '--remove-class-attribute-annotations', '--no-remove-annotations', '--in-place'], 'same, in place'),
    (['mod.py', '--no-such-flag'], 'unknown flag'),
    (['mod.py', '-', '--in-place'], 'stdin after a path, with --in-place'),
    (['--in-place', 'mod.py', 'other.py', '-'], 'stdin last of three paths, with --in-place'),
    (['mod.py', '-'], 'stdin after a path'),
    (['-', '-'], 'stdin twice'),
    (['.', '-', '--in-place'], 'directory and stdin, with --in-place'),
    (['mod.py', '.'], 'file and directory without --in-place'),
    (['other.py', 'mod.py', '--output', 'out.py'], 'several paths with --output'),
    (['mod.py', '--in-place', '--remove-class-attribute-annotations', '--no-remove-variable-annotations', '--no-remove-return-annotations', '--no-remove-argument-annotations', '--no-remove-annotations'],
     'class-attribute flag with annotations off, other annotation flags present'),
    ([], 'no path'),
]


def run_invalid(case):
    res = {'status': 'held', 'violations': [], 'counters': {'invalid_argv_runs': 1}, 'nontrivial': ['invalid|' + case['what']]}
    d = tempfile.mkdtemp(prefix='vf_c13i_')
    try:
        src = SENTINEL.encode()
        with open(os.path.join(d, 'mod.py'), 'wb') as f:
            f.write(src)
        with open(os.path.join(d, 'other.py'), 'wb') as f:
            f.write(src + b'other = 1\n')
        before = cli.snapshot(d)
        rc, out, err = cli.run_cli(case['argv'], d, stdin=src)
        after = cli.snapshot(d)
        if rc == 0 or out or after != before:
            res['status'] = 'violation'
            res['violations'].append({'mech': None, 'detail': 'invalid invocation %r (%s): rc=%d stdout=%r tree_changed=%s' % (
                case['argv'], case['what'], rc, out[:80], after != before), 'witness': {'argv': case['argv']}})
    finally:
        shutil.rmtree(d, ignore_errors=True)
    return res


def e2e_cases(tier, seed):
    r = common.rng(seed, 'C13-e2e')
    srcs = [('sentinel', SENTINEL.encode())]
    for tag, s in seeds.all_seeds():
        if tag.startswith(('d8', 'd12', 'd7', 'd9', 'd16', 'd17', 'd6')):
            continue
        srcs.append(('seed:' + tag, s.encode('utf-8')))
    files = [f for f in common.corpus_files('real') if os.path.getsize(f) < 8000]
    r.shuffle(files)
    for f in files[:6 if tier == 'quick' else 40]:
        srcs.append(('corpus:' + os.path.basename(f), common.read_text(f)))
    for i in range(6 if tier == 'quick' else 60):
        s, _ = modgen.generate(seed, 9000 + i, size=8)
        srcs.append(('modgen:%d' % i, s.encode()))
    from vf.props import C14
    for tag, b in C14.growers():
        srcs.append(('grower:' + tag, b))
    srcs.append(('boundary_nonascii', "x='\u00e9';True if 0in x else False".encode('utf-8')))
    srcs.append(('boundary_nonascii2', "x='\u00e9'if 0in y else 1".encode('utf-8')))
    srcs.append(('tiny', b'x=1\n'))
    srcs.append(('empty', b''))
    srcs.append(('latin1', '# -*- coding: latin-1 -*-\nname = "caf\xe9 caf\xe9"\nprint(name)\n'.encode('latin-1')))
    n = 150 if tier == 'quick' else 3000
    flagsets = []
    # every single flag, a pairwise array over the 19 flags, random subsets
    for i in range(cli_model.NFLAGS):
        flagsets.append(cli_model.flags_of(1 << i))
    pw = options.pairwise(['f%d' % i for i in range(cli_model.NFLAGS)])
    for row in pw:
        flagsets.append([cli_model.FLAGS[i][0] for i in range(cli_model.NFLAGS) if row['f%d' % i]])
    while len(flagsets) < n:
        flagsets.append(cli_model.flags_of(r.getrandbits(cli_model.NFLAGS)) if r.random() < 0.7 else
                        [f for f in cli_model.flags_of(r.getrandbits(cli_model.NFLAGS)) if r.random() < 0.3])
    cases = []
    for i, flags in enumerate(flagsets[:n]):
        name, b = srcs[0] if i < cli_model.NFLAGS + 5 else r.choice(srcs)
        pres = r.choice(cli_model.PRESERVE_SPELLINGS)[0]
        cases.append({'name': name, 'src_b64': base64.b64encode(b).decode(), 'flags': flags, 'preserve': pres, 'mode': MODES[i % len(MODES)],
                      'want_sample': i % 37 == 0, 'timeout': 100})
    return cases


def main(tier, seed):
    run = runner.Run(PROP, tier, seed)
    total = 1 << cli_model.NFLAGS
    step = total // 64
    lat = [{'lo': lo, 'hi': min(total, lo + step), 'tier': tier, 'timeout': 590} for lo in range(0, total, step)]

    def on_l(c, r):
        run.add({'layer': 'lattice', 'lo': c['lo'], 'hi': c['hi']}, r)
    pool.run_cases(lat, 'vf.props.C13:run_lattice', timeout=600, batch=1, on_result=on_l)

    def on_e(c, r):
        slim = {'layer': 'e2e', 'name': c['name'], 'flags': c['flags'], 'preserve': c['preserve'], 'mode': c['mode']}
        if r.get('status') == 'violation':
            slim['src_b64'] = c['src_b64']
        run.add(slim, r)
    pool.run_cases(e2e_cases(tier, seed), 'vf.props.C13:run_e2e', timeout=120, batch=2, on_result=on_e)

    def on_m(c, r):
        run.add({'layer': 'multi', 'flags': c['flags'], 'preserve': c['preserve'], 'order': c['order']}, r)
    pool.run_cases(multi_cases(tier, seed), 'vf.props.C13:run_multi', timeout=120, batch=2, on_result=on_m)

    def on_i(c, r):
        run.add({'layer': 'invalid', 'argv': c['argv']}, r)
    pool.run_cases([{'argv': a, 'what': w} for a, w in INVALID_ARGVS], 'vf.props.C13:run_invalid', timeout=60, batch=1, on_result=on_i)
    exhaustive = run.counters.get('flag_sets', 0) >= total
    return run.finish(
        rule='layer 1: all 2^19 subsets of the 19 boolean flags (x preserve-list spellings: one rotating per subset in quick, all four in '
             'thorough) through the real parse_args()/do_minify() with a recorder at __main__.minify, compared with the table transcribed '
             'from docs; layer 2: real subprocess runs for every single flag, a pairwise array and random subsets x sources x 5 output '
             'modes compared byte for byte with UTF-8(api) under the size rule; invalid invocations must exit non-zero and write nothing; several files and a directory in one --in-place run, each file compared with the API result for that file; '
             'non-trivial/distinct = lattice slices completed + distinct (source, flags, mode) end-to-end runs that were compared',
        assumptions=['the flag table in vf/oracle/cli_model.py is a faithful transcription of docs/source/transforms/*.rst',
                     'layer 1 observes the arguments forwarded to minify(); that minify() honours them is the API\'s side (C05 etc.)'],
        extra={'lattice_exhaustive_over_flag_subsets': exhaustive, 'flag_subsets': total}, min_nontrivial=60, exhaustive=exhaustive,
        required_counters=['flag_sets', 'cli_runs', 'invalid_rejected', 'non_default_kwargs', 'invalid_argv_runs', 'multi_file_runs'])


def replay(path):
    w = runner.load_replay(path)
    c = w['case']
    if c.get('layer') == 'e2e':
        r = run_e2e({'name': c['name'], 'src_b64': c['src_b64'], 'flags': c['flags'], 'preserve': c['preserve'], 'mode': c['mode']})
    elif c.get('layer') == 'invalid':
        r = run_invalid({'argv': c['argv'], 'what': 'replay'})
    elif c.get('layer') == 'multi':
        r = run_multi({'flags': c['flags'], 'preserve': c['preserve'], 'order': c['order']})
    else:
        r = run_lattice({'lo': c['lo'], 'hi': c['hi'], 'tier': 'thorough'})
    print(json.dumps(r, indent=1)[:3000])
    if r.get('violations'):
        print('VIOLATION property=%s replay=%s' % (PROP, path))
        return 1
    return 0
