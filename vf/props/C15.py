"""C15 - in-place minification touches only Python files and never corrupts one.

Monitor: real CLI subprocess in a scratch tree with the harness sitecustomize (open-for-write log, failpoints at open());
file-system snapshot before/after, exit status, stdout path listing (= visit order).
Oracle: sequential model over the visit listing: each visited target holds UTF-8(minify(before)) (or its original bytes when
that is not smaller); everything else is byte-identical, nothing is created, nothing outside the target set is opened for
writing; on a fault: exit != 0, the failing file and every file not yet visited are byte-identical.
"""
import base64
import json
import os
import shutil
import tempfile

from vf import cli, common, pool, runner
from vf.gen import seeds
from vf.oracle import cli_model

PROP = 'C15'

GOOD = [
    b'def function(argument):\n    """doc"""\n    local_value = argument + 1\n    return local_value\nprint(function(1))\n',
    b'import os\nimport sys\nclass Klass(object):\n    def method(self, parameter):\n        pass\n',
    b'x = 1\n',
    b'',
    b'#!/usr/bin/env python\nvalue = "text" + "text" + "text" + "text"\nprint(value)\n',
    b'# -*- coding: latin-1 -*-\nname = "caf\xe9"\nprint(name)\n',
    b'a=1',
    b'EPSILON=1e-5',
    b'x=[]\ny=True if 0in x else False',
    b'x="\t\t\t"',
    b'\xef\xbb\xbfdef f(a, b):\n    return a + b\n',
    b'def f():\r\n    return None\r\n',
]
BAD = {
    'unparseable': b'def broken(:\n    pass\n',
    'undecodable': b'x = "\xff\xfe"\n',
    'unknown_cookie': b'# coding: no-such-codec\nx = 1\n',
    'bad_indent': b'def f():\n\tx = 1\n        y = 2\n',
    'nul': b'x = 1\x00\n',
    # too deeply nested for the parser / for the minifier's recursive visitors (RecursionError, not SyntaxError)
    'too_deep_parse': b'x = ' + b' + '.join([b'1'] * 4000) + b'\n',
    'too_deep_minify': b'x = ' + b' + '.join([b'name'] * 2500) + b'\n',
}
NAMES_PY = ['mod.py', 'a.py', 'b.py', 'script.pyw', 'pkg_init.py', 'zz.py', 'CamelCase.py', 'with space.py', 'x.y.py', '.hidden.py', 'mé.py']
NAMES_OTHER = ['jobs.ipy', 'numpy', 'settings_copy', 'array.npy', 'run.xpyw', 'mod.py~', 'mod.py ', 'notes.txt', 'data.pyi', 'cache.pyc', 'UPPER.PY', 'backup.py.bak', 'Makefile', 'nopy', 'py', 'endswithpy', 'x.pyw.orig', 'README', 'spam.Py', 'hpy']


def gen_tree(r, fault_kind=None):
    """returns (entries, args, fault) ; entries: list of dicts {path, kind: file|dir|link, data_b64|target}"""
    entries = []
    dirs = ['']
    for _ in range(r.randrange(1, 5)):
        parent = r.choice(dirs)
        name = r.choice(['pkg', 'sub', 'tests', 'a', 'dir.py', 'x.py.d', 'deep', '__pycache__'])
        p = os.path.join(parent, name)
        if p not in dirs:
            dirs.append(p)
            entries.append({'path': p, 'kind': 'dir'})
    files = []
    for d in dirs:
        for _ in range(r.randrange(0, 4)):
            n = r.choice(NAMES_PY)
            p = os.path.join(d, n)
            if any(e['path'] == p for e in entries):
                continue
            entries.append({'path': p, 'kind': 'file', 'data_b64': base64.b64encode(r.choice(GOOD)).decode()})
            files.append(p)
        for _ in range(r.randrange(0, 3)):
            n = r.choice(NAMES_OTHER)
            p = os.path.join(d, n)
            if any(e['path'] == p for e in entries):
                continue
            content = r.choice(GOOD + list(BAD.values()) + [b'not python at all {{{\n', b'\x00\x01\x02binary'])
            entries.append({'path': p, 'kind': 'file', 'data_b64': base64.b64encode(content).decode()})
    # symlinks
    if r.random() < 0.5 and files:
        tgt = r.choice(files)
        p = os.path.join(r.choice(dirs), 'link_to_file.py')
        if not any(e['path'] == p for e in entries):
            entries.append({'path': p, 'kind': 'link', 'target': os.path.relpath(tgt, os.path.dirname(p) or '.')})
    if r.random() < 0.3:
        p = os.path.join(r.choice(dirs), 'link_to_other.txt')
        if files and not any(e['path'] == p for e in entries):
            entries.append({'path': p, 'kind': 'link', 'target': os.path.relpath(r.choice(files), os.path.dirname(p) or '.')})
    if r.random() < 0.3 and len(dirs) > 1:
        # directory symlink to a sibling directory outside the argument directory
        entries.append({'path': 'outside', 'kind': 'dir'})
        entries.append({'path': 'outside/ext.py', 'kind': 'file', 'data_b64': base64.b64encode(GOOD[0]).decode()})
        entries.append({'path': 'outside/ext.txt', 'kind': 'file', 'data_b64': base64.b64encode(GOOD[0]).decode()})
        d = r.choice(dirs[1:])
        entries.append({'path': os.path.join(d, 'linkdir'), 'kind': 'link', 'target': os.path.relpath('outside', d)})
    # arguments
    k = r.random()
    top = [d for d in dirs if d and os.sep not in d]
    if k < 0.45 or not top:
        args = ['.'] if not top or r.random() < 0.5 else [r.choice(top)]
    elif k < 0.7:
        args = [r.choice(top)] + ([r.choice(files)] if files else [])
    elif k < 0.85 and files:
        args = r.sample(files, min(len(files), r.randrange(1, 4)))
        if r.random() < 0.3:
            args.append(args[0])
    else:
        args = list(top)[:2] + ([r.choice(top)] if r.random() < 0.3 else [])
    return entries, args


def build(root, entries):
    for e in entries:
        p = os.path.join(root, e['path'])
        if e['kind'] == 'dir':
            os.makedirs(p, exist_ok=True)
    for e in entries:
        p = os.path.join(root, e['path'])
        if e['kind'] == 'file':
            os.makedirs(os.path.dirname(p), exist_ok=True)
            with open(p, 'wb') as f:
                f.write(base64.b64decode(e['data_b64']))
    for e in entries:
        p = os.path.join(root, e['path'])
        if e['kind'] == 'link':
            os.makedirs(os.path.dirname(p), exist_ok=True)
            os.symlink(e['target'], p)


def model_targets(root, args):
    """The documented selection: explicit file arguments, and under directory arguments (followed recursively, links included)
    every file whose name ends in .py or .pyw. Returns list of paths as the tool would spell them (order not significant)."""
    out = []
    for a in args:
        p = os.path.join(root, a)
        if os.path.isdir(p):
            for dirpath, dirnames, filenames in os.walk(p, followlinks=True):
                for f in filenames:
                    if f.endswith('.py') or f.endswith('.pyw'):
                        out.append(os.path.normpath(os.path.join(a, os.path.relpath(os.path.join(dirpath, f), p))))
        else:
            out.append(os.path.normpath(a))
    return out


def run_case(case):
    import python_minifier as pm
    res = {'status': 'held', 'violations': [], 'counters': {'cli_runs': 1}, 'nontrivial': [], 'matrix': {'fault_kinds': {}}}
    root = tempfile.mkdtemp(prefix='vf_c15_')
    log = root + '.openlog'
    try:
        build(root, case['entries'])
        flags = case['flags']
        args = case['args']
        fault = case.get('fault')
        targets = model_targets(root, args)
        env_extra = {'VF_OPEN_LOG': log}
        fault_path = None
        if fault:
            # choose the failing file among the model's targets
            uniq = sorted(set(targets))
            if not uniq:
                return {'status': 'skip', 'reason': 'no target for a fault plan'}
            fault_path = uniq[fault['index'] % len(uniq)]
            real = os.path.join(root, fault_path)
            if fault['kind'] in BAD:
                if os.path.islink(real):
                    return {'status': 'skip', 'reason': 'fault target is a link'}
                with open(real, 'wb') as f:
                    f.write(BAD[fault['kind']])
            elif fault['kind'] == 'read_fault':
                env_extra['VF_FAIL_OPEN'] = os.path.abspath(real) + '|r'
            elif fault['kind'] == 'write_fault':
                env_extra['VF_FAIL_OPEN'] = os.path.abspath(real) + '|w'
            elif fault['kind'] == 'dangling':
                if os.path.islink(real):
                    return {'status': 'skip', 'reason': 'fault target is a link'}
                os.unlink(real)
                os.symlink('does-not-exist', real)
        before = cli.snapshot(root)
        foreign = case.get('python')      # another interpreter runs the tool: no open-log, and the bytes it writes are that interpreter's business
        rc, out, err = cli.run_cli(list(flags) + ['--in-place'] + list(args), root, monitor=not foreign, env_extra=env_extra, python=foreign)
        after = cli.snapshot(root)
        opened_w = []
        if os.path.exists(log):
            for line in open(log, encoding='utf-8', errors='surrogateescape'):
                mode, _, p = line.rstrip('\n').partition('\t')
                if any(c in mode for c in 'wax+') and p.startswith(root):
                    opened_w.append(os.path.relpath(os.path.realpath(p), os.path.realpath(root)))
        visited = [os.path.normpath(l) for l in out.decode('utf-8', 'surrogateescape').split('\n') if l]

        def viol(msg):
            res['violations'].append({'mech': None, 'detail': '%s | args=%r flags=%r fault=%r rc=%d' % (msg, args, flags, fault, rc), 'witness': {}})

        def realrel(p):
            return os.path.relpath(os.path.realpath(os.path.join(root, p)), os.path.realpath(root))
        # sequential model over the visit listing
        state = {k: v for k, v in before.items()}
        expected_fail = None
        fault_inert = False
        kw_cache = {}
        for i, v in enumerate(visited):
            key = realrel(v)
            cur = state.get(key)
            last = (i == len(visited) - 1)
            if cur is None or cur[0] != 'f':
                expected_fail = v
                break
            try:
                want = cli_model.expected_bytes(cur[1], flags, [], pm)
            except Exception:
                expected_fail = v
                break
            if fault and os.path.normpath(fault_path) == v and fault['kind'] in ('read_fault', 'write_fault'):
                if fault['kind'] == 'write_fault' and want == cur[1] and len(cli_model.expected_bytes(cur[1], flags, [], pm, force_best_effort=True)) > len(cur[1]):
                    # the minified form is longer: the tool keeps the file as it is and never opens it for writing, the fault cannot strike
                    fault_inert = True
                else:
                    expected_fail = v
                    break
            state[key] = ('f', want)
        if foreign:
            # visited files that did not fail may hold whatever that interpreter's minifier produces; everything else is still decided
            for v in visited:
                if v != expected_fail and realrel(v) in after:
                    state[realrel(v)] = after[realrel(v)]
        # 1. post-state equals the model
        for k in sorted(set(state) | set(after)):
            if state.get(k) != after.get(k):
                b = before.get(k)
                kind = 'created' if k not in before else ('a visited target holds neither its original bytes nor the minified module' if k in [realrel(v) for v in visited] else 'a file that was not visited changed')
                viol('%s: %s (before %r..., after %r..., model %r...)' % (k, kind, (b[1][:40] if b and len(b) > 1 else b), (after.get(k) or ('', b''))[1][:40] if after.get(k) else None,
                                                                        (state.get(k) or ('', b''))[1][:40] if state.get(k) else None))
        # 2. only targets are opened for writing
        tset = set(realrel(t) for t in targets)
        for p in opened_w:
            if p not in tset:
                viol('%s was opened for writing but is not a .py/.pyw target' % p)
        # 3. visit set and exit status
        if expected_fail is None:
            if rc != 0:
                viol('no fault expected but exit status %d, stderr %r' % (rc, err[-200:]))
            if sorted(visited) != sorted(targets):
                viol('visited %r but the documented selection is %r' % (sorted(visited), sorted(targets)))
        else:
            if rc == 0:
                viol('%s cannot be read/decoded/parsed/written but the exit status is 0' % expected_fail)
            if visited and visited[-1] != expected_fail:
                viol('run continued after the failing file %s: visited %r' % (expected_fail, visited))
            if not set(visited) <= set(targets):
                viol('visited files outside the documented selection: %r' % sorted(set(visited) - set(targets)))
        if fault and expected_fail is None and fault['kind'] != 'none' and not fault_inert:
            # the fault file was never reached?  (it must be, the listing had no failure)
            viol('fault plan %r on %s had no effect' % (fault, fault_path))
        n_changed = sum(1 for k in after if after.get(k) != before.get(k))
        res['nontrivial'].append('%d targets|%d changed|fault=%s|args=%d|%s' % (len(targets), n_changed, (fault or {}).get('kind'), len(args), common.sha(json.dumps(case['entries']))))
        res['matrix']['fault_kinds'][(fault or {'kind': 'none'})['kind']] = 1
        res['counters']['files_in_trees'] = len(before)
        res['counters']['files_rewritten'] = n_changed
        res['counters']['opens_for_writing_logged'] = len(opened_w)
        if expected_fail is not None:
            res['counters']['runs_with_fault_observed'] = 1
    finally:
        shutil.rmtree(root, ignore_errors=True)
        if os.path.exists(log):
            os.unlink(log)
    if res['violations']:
        res['status'] = 'violation'
        res['violations'] = res['violations'][:5]
    elif case.get('want_sample'):
        res['sample'] = {'args': case['args'], 'flags': case['flags'], 'fault': case.get('fault'), 'tree': [e['path'] + ('@' if e['kind'] == 'link' else '/' if e['kind'] == 'dir' else '') for e in case['entries']][:25],
                         'visited': visited[:10], 'rc': rc}
    return res


def gen_cases(tier, seed):
    ntrees = 60 if tier == 'quick' else 1500
    cases = []
    kinds = list(BAD) + ['read_fault', 'write_fault', 'dangling']
    for t in range(ntrees):
        r = common.rng(seed, 'C15', t)
        entries, args = gen_tree(r)
        flags = [] if r.random() < 0.5 else cli_model.flags_of(r.getrandbits(cli_model.NFLAGS))
        if cli_model.invalid(flags):
            flags.remove('--no-remove-annotations')
        cases.append({'entries': entries, 'args': args, 'flags': flags, 'fault': None, 'want_sample': t % 25 == 0, 'timeout': 100})
        nf = 2 if tier == 'quick' else 4
        for j in range(nf):
            cases.append({'entries': entries, 'args': args, 'flags': flags, 'fault': {'kind': kinds[(t + j) % len(kinds)], 'index': r.randrange(1000)},
                          'want_sample': (t + j) % 40 == 0, 'timeout': 100})
    return cases


def main(tier, seed):
    run = runner.Run(PROP, tier, seed)

    def on(c, r):
        slim = {'args': c['args'], 'flags': c['flags'], 'fault': c['fault']}
        if r.get('status') == 'violation' or 'inconclusive' in r:
            slim['entries'] = c['entries']
        run.add(slim, r)
    pool.run_cases(gen_cases(tier, seed), 'vf.props.C15:run_case', timeout=120, batch=2, on_result=on, deadline=run.deadline)
    # fault plans again with the tool running in other interpreters (which exception a broken file raises differs from version to version)
    fcases = [c for c in gen_cases(tier, seed + 7) if c.get('fault') and c['fault']['kind'] in BAD]
    interp = dict(common.interpreters())
    xcases = []
    for i, c in enumerate(fcases[:(60 if tier == 'quick' else 900)]):
        version = ['3.6.15', '3.8.18', '3.10.13', '3.13.0', '3.7.16', '3.9.18', '3.11.7'][i % 7]       # not 2.7: mixed indentation and non-UTF-8 str literals are valid there
        if version in interp:
            d = dict(c)
            d['python'] = interp[version]
            d['interpreter'] = version
            d['flags'] = []
            xcases.append(d)

    def on_x(c, r):
        slim = {'args': c['args'], 'flags': c['flags'], 'fault': c['fault'], 'interpreter': c['interpreter'], 'python': c['python']}
        if r.get('status') == 'violation' or 'inconclusive' in r:
            slim['entries'] = c['entries']
            for v in r.get('violations') or []:
                v['detail'] = '[tool running in %s] %s' % (c['interpreter'], v.get('detail'))
        if r.get('status') in ('held', 'violation'):
            run.count('cross_interpreter_fault_runs')
            run.cell('cross_interpreter_fault_runs', c['interpreter'])
        run.add(slim, r)
    pool.run_cases(xcases, 'vf.props.C15:run_case', timeout=120, batch=2, on_result=on_x, deadline=run.deadline)
    return run.finish(
        rule='random directory trees (nested dirs, .py/.pyw and look-alike suffixes, empty / BOM / cookie / CRLF files, file and directory '
             'symlinks inside and outside the argument, directories named like modules) x path-argument lists (dirs, files, duplicates, '
             'overlaps) x flag sets x fault plans (unparseable, undecodable, unknown cookie, bad indentation, NUL byte, read fault and write '
             'fault injected at open(), dangling link) at a random position in visit order; the file-content fault plans again with the tool running in 3.6 - 3.13; non-trivial/distinct = distinct (tree, arguments, '
             'fault) runs whose post-state was compared with the sequential model',
        assumptions=['faults are injected at open() (failpoint in the harness sitecustomize); a crash in the middle of the final write() is not covered',
                     'explicitly named files are targets whatever their suffix'],
        level='fault_enumeration', min_nontrivial=40,
        required_counters=['cli_runs', 'files_rewritten', 'opens_for_writing_logged', 'runs_with_fault_observed', 'cross_interpreter_fault_runs'])


def replay(path):
    w = runner.load_replay(path)
    c = w['case']
    r = run_case({'entries': c['entries'], 'args': c['args'], 'flags': c['flags'], 'fault': c['fault']})
    print(json.dumps(r, indent=1)[:3000])
    if r.get('violations'):
        print('VIOLATION property=%s replay=%s' % (PROP, path))
        return 1
    return 0
