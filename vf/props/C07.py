"""C07 - constant folding never changes a value, its type, or an error.

Layer A (every interpreter present, vf/compat_worker.py op 'fold'): the value bound by the program before and
after minify(constant_folding=True, everything else off) is evaluated in that interpreter and must agree in
(type, repr) or in exception type; output with folding must not be longer than without; depth-1 expressions
that raise / give NaN must be textually untouched.
Layer B (3.12, in-process probes): class-level wrapper on FoldConstants.visit_BinOp and a wrapper on
constant_folding.safe_eval record every fold decision; before/after texts (printed with the *stdlib*
ast.unparse) are checked to be closed literal expressions and evaluated independently.
"""
import ast
import json
import math
import os

from vf import common, pool, runner
from vf.gen import foldgen

PROP = 'C07'
ALLOWED = (ast.Expression, ast.BinOp, ast.UnaryOp, ast.Constant, ast.operator, ast.unaryop, ast.Load)


def closed_literal(text, printer_artefacts=False):
    """Constant / BinOp / UnaryOp only. With printer_artefacts=True the bare names `inf` and `nan` are tolerated: they are
    what the package's own number printer emits for non-finite values (never taken from the input; they resolve to
    nothing in the empty namespace and the candidate is then discarded)."""
    try:
        t = ast.parse(text, mode='eval')
    except Exception:
        return False
    for n in ast.walk(t):
        if isinstance(n, ALLOWED):
            continue
        if printer_artefacts and isinstance(n, ast.Name) and n.id in ('inf', 'nan', 'infj', 'nanj'):
            continue
        return False
    return True


def vkey(v):
    if isinstance(v, int) and not isinstance(v, bool) and v.bit_length() > 9000:
        return 'int:bits%d:%d' % (v.bit_length(), v % 2305843009213693951)
    return '%s:%r' % (type(v).__name__, v)


def ev(text):
    try:
        v = eval(compile(ast.parse(text, mode='eval'), 'fold-oracle', 'eval'), {'__builtins__': {}}, {})
    except BaseException as e:
        return ('raise', type(e).__name__)
    return ('value', vkey(v))


_probe = {'installed': False}


def install_probes():
    if _probe['installed']:
        return
    import python_minifier.transforms.constant_folding as cf
    orig_visit = cf.FoldConstants.visit_BinOp
    orig_safe = cf.safe_eval
    events = _probe.setdefault('events', [])
    evals = _probe.setdefault('evals', [])

    def visit_BinOp(self, node):
        try:
            before = ast.unparse(node)
        except Exception:
            before = None
        out = orig_visit(self, node)
        if out is not node:
            try:
                after = ast.unparse(out)
            except Exception:
                after = None
            events.append((before, after))
        else:
            _probe['not_folded'] = _probe.get('not_folded', 0) + 1
        return out

    def safe_eval(expression):
        evals.append(expression)
        return orig_safe(expression)

    cf.FoldConstants.visit_BinOp = visit_BinOp
    cf.safe_eval = safe_eval
    _probe['installed'] = True


def run_event_case(case):
    """Layer B worker (3.12): minify with folding on (alone and with defaults), check every recorded fold."""
    import python_minifier as pm
    install_probes()
    src = case['src']
    try:
        compile(src, 'c', 'exec')
    except Exception:
        return {'status': 'skip', 'reason': 'uncompilable'}
    res = {'status': 'held', 'violations': [], 'counters': {}, 'nontrivial': []}
    for mode in ('fold_only', 'default'):
        del _probe['events'][:]
        del _probe['evals'][:]
        opts = common.all_off()
        if mode == 'default':
            opts = common.defaults()
        opts['constant_folding'] = True
        try:
            pm.minify(src, **common.opts_to_kwargs(opts, pm))
        except Exception as e:
            res['counters']['minify_raised_' + type(e).__name__] = 1
            continue
        for text in _probe['evals']:
            res['counters']['safe_eval_calls'] = res['counters'].get('safe_eval_calls', 0) + 1
            if not closed_literal(text, printer_artefacts=True):
                res['violations'].append({'mech': None, 'detail': 'safe_eval given a non-literal expression: %r' % text[:200],
                                          'witness': {'src': src, 'mode': mode}})
        for before, after in _probe['events']:
            res['counters']['folds_observed'] = res['counters'].get('folds_observed', 0) + 1
            if before is None or after is None:
                continue
            if not (closed_literal(before) and closed_literal(after)):
                res['violations'].append({'mech': None, 'detail': 'fold of a non-closed expression %r -> %r' % (before, after),
                                          'witness': {'src': src, 'mode': mode}})
                continue
            a, b = ev(before), ev(after)
            res['nontrivial'].append(before)
            if a != b:
                res['violations'].append({'mech': None, 'detail': 'fold changes value: %s = %r  ->  %s = %r' % (before, a, after, b),
                                          'witness': {'src': src, 'mode': mode, 'before': before, 'after': after}})
            elif a[0] == 'raise':
                res['violations'].append({'mech': None, 'detail': 'raising expression folded: %s (%s)' % (before, a[1]),
                                          'witness': {'src': src, 'mode': mode}})
            elif 'nan' in a[1]:
                res['violations'].append({'mech': None, 'detail': 'NaN expression folded: %s' % before, 'witness': {'src': src}})
    if res['violations']:
        res['status'] = 'violation'
    return res


def gen_cases(tier, seed):
    cases = list(foldgen.grid())
    r = common.rng(seed, 'C07')
    if tier == 'quick':
        r.shuffle(cases)
        cases = cases[:6000]
        cases += list(foldgen.random_cases(seed, 5000, depth=4))
    else:
        cases += list(foldgen.random_cases(seed, 100000, depth=4))
    cases += list(foldgen.neighbour_cases())
    cases += list(foldgen.interplay_cases())
    cases += list(foldgen.huge_shift_cases())
    for c in cases:
        c['op'] = 'fold'
    return cases


def main(tier, seed):
    run = runner.Run(PROP, tier, seed)
    cases = gen_cases(tier, seed)
    per = {}
    # ---- layer B: event level (3.12) -----------------------------------------------------------
    def on_b(c, r):
        run.add({'layer': 'B', 'shape': c['shape'], 'src': c['src']}, r)
    pool.run_cases(cases, 'vf.props.C07:run_event_case', timeout=20, batch=50, on_result=on_b, deadline=run.deadline)
    # ---- layer A: end to end on every interpreter ---------------------------------------------
    for version, py in common.interpreters():
        if run.timed_out():
            run.count('interpreters_skipped_budget')
            continue
        cs = cases
        if version != '3.12-venv' and tier == 'quick':
            cs = [c for i, c in enumerate(cases) if (i + len(version) + seed) % 3 == 0 or c.get('interplay') or c['shape'].startswith('hugeshift')]
        st = {'cases': 0, 'folded': 0, 'violations': 0}

        def on_a(c, r, version=version, st=st):
            st['cases'] += 1
            out = {'status': r.get('status'), 'reason': r.get('reason'), 'violations': []}
            if 'inconclusive' in r and r.get('status') is None:
                out = r
            if r.get('status') == 'error':
                exc = r.get('exc') or {}
                if 'f-string' in (exc.get('msg') or '') or 'recursion' in (exc.get('msg') or '').lower():
                    out = {'status': 'inconclusive', 'reason': 'minify raised %s (routed to C08)' % exc.get('type')}
                else:
                    # an expression whose evaluation raises is to be left as it is: the exception must not escape from the folder
                    out = {'status': 'violation', 'violations': [{'mech': None, 'detail': '%s minify() raised %s (%s) for literal arithmetic | %s' % (version, exc.get('type'), exc.get('site'), c['expr']),
                                                                  'witness': {'interpreter': version}}]}
            if r.get('interplay_hoisted'):
                run.count('interplay_folded_and_hoisted')
            if r.get('folded'):
                st['folded'] += 1
                run.nontrivial.add(version + '|' + c['expr'])
                run.cell('folded_by_context', c['ctx'])
                run.cell('folded_by_interpreter', version)
            for v in r.get('violations') or []:
                st['violations'] += 1
                out['violations'].append({'mech': None, 'detail': '%s %s: %s | %s' % (version, v['kind'], v['detail'], c['expr']),
                                          'witness': {'interpreter': version, 'out_on': r.get('out_on'), 'out_off': r.get('out_off')}})
            if r.get('folded') and st['folded'] % 2500 == 1:
                out['sample'] = {'interpreter': version, 'expr': c['expr'], 'ctx': c['ctx'], 'out': r.get('out_on')}
            run.add({'layer': 'A', 'interpreter': version, 'shape': c['shape'], 'src': c['src']}, out)

        env = common.clean_env()
        env['PYTHONPATH'] = common.REPO_SRC
        pool.run_cases(cs, None, cmd=[py, '-W', 'ignore', os.path.join(common.VERIF, 'vf', 'compat_worker.py')], env=env,
                       timeout=20.0, batch=60, on_result=on_a, deadline=run.deadline + 60)
        per[version] = st
    return run.finish(
        rule='literal-only arithmetic: all 13 binary operators x all operand pairs over ~37 representative operands (depth 1, '
             'closed), unary wrappers, random nesting to depth 4 in 30 syntactic contexts; layer A = value of V before/after in '
             'each interpreter, layer B = every fold decision recorded at FoldConstants.visit_BinOp re-evaluated independently; '
             'non-trivial/distinct = distinct (interpreter, expression) actually folded + distinct folded sub-expressions seen by the probe',
        assumptions=['eval() of the same interpreter is the reference semantics', 'ast.unparse (stdlib) prints the probe texts'],
        extra={'interpreters': per}, min_nontrivial=100, required_counters=['folds_observed', 'safe_eval_calls', 'interplay_folded_and_hoisted'])


def replay(path):
    import subprocess
    w = runner.load_replay(path)
    c = w['case']
    if c.get('layer') == 'B':
        r = run_event_case({'src': c['src']})
    else:
        py = dict(common.interpreters())[c['interpreter']]
        env = common.clean_env()
        env['PYTHONPATH'] = common.REPO_SRC
        p = subprocess.run([py, '-W', 'ignore', os.path.join(common.VERIF, 'vf', 'compat_worker.py')],
                           input=(json.dumps({'batch': [{'op': 'fold', 'src': c['src'], 'closed': True}]}) + '\n').encode(),
                           stdout=subprocess.PIPE, env=env, timeout=120)
        r = json.loads(p.stdout.decode())['batch'][0]
    print(json.dumps(r, indent=1)[:3000])
    if r.get('violations'):
        print('VIOLATION property=%s replay=%s' % (PROP, path))
        return 1
    return 0
