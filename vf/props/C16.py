"""C16 - shebang, source encoding and line endings are handled faithfully.

Monitor: minify(bytes) / minify(text) / CLI output for program x encoding x BOM x newline convention x shebang.
Oracle: (1) strict AST of ast.parse(bytes) [the interpreter's own PEP 263 decoding is the reference] equals strict AST of the
all-off result; with default options the program's printed output is the same; (2) minify(bytes) == minify(decoded text);
(3) first-line rule for shebangs; (4) the CLI's bytes decode as UTF-8 to the API result.
"""
import ast
import base64
import codecs
import contextlib
import io
import json
import os
import re
import shutil
import tempfile
import tokenize

from vf import cli, common, options, pool, runner
from vf.compat_worker import sdump, first_diff
from vf.gen import encgen

PROP = 'C16'


def first_line(b):
    m = re.match(br'[^\r\n]*', b)
    return m.group(0)


def decode_like_interpreter(b):
    try:
        enc, _ = tokenize.detect_encoding(io.BytesIO(b).readline)
    except SyntaxError:
        return None, None
    try:
        return b.decode(enc), enc
    except Exception:
        return None, enc


def run_prog(code_src, is_bytes):
    buf = io.StringIO()
    ns = {'__name__': '__vf_main__'}
    try:
        code = compile(code_src, 'prog.py', 'exec', dont_inherit=True)
        with contextlib.redirect_stdout(buf):
            exec(code, ns)
        return ('ok', buf.getvalue())
    except BaseException as e:
        return ('raise', type(e).__name__ + '|' + buf.getvalue())


def classify(detail, b, exc=None):
    fl = first_line(b)
    has_cr_only = b'\r' in b and b'\n' not in b
    if exc == 'UnicodeDecodeError' and fl.startswith(b'#!') and any(c >= 0x80 for c in fl):
        return 'C16.shebang.non_utf8_bytes'
    if has_cr_only and fl.startswith(b'#!'):
        return 'C16.shebang.cr_only'
    m = re.match(br'^#![^\r\n]*?coding[:=][ \t]*([-\w.]+)', fl)
    if m and 'preserve_shebang=True' in detail and 'encoded as UTF-8' in detail:
        try:
            if codecs.lookup(m.group(1).decode('ascii')).name != 'utf-8':
                return 'C16.shebang.cookie_on_shebang_line'
        except LookupError:
            pass
    return None


def run_case(case):
    import python_minifier as pm
    b = base64.b64decode(case['data_b64'])
    res = {'status': 'held', 'violations': [], 'counters': {}, 'nontrivial': [], 'matrix': {'by_encoding': {}, 'by_newline': {}}}
    try:
        ref = ast.parse(b)
    except Exception:
        return {'status': 'skip', 'reason': 'interpreter rejects this encoding of the source'}
    want = sdump(ref)
    fl = first_line(b)
    bom = b.startswith(codecs.BOM_UTF8)
    has_shebang = fl.startswith(b'#!')
    bom_shebang = bom and b[3:5] == b'#!'      # not a kernel shebang; treated as unspecified
    text, enc = decode_like_interpreter(b)
    text_ok = False
    if text is not None and not text.startswith('﻿'):
        try:
            text_ok = sdump(ast.parse(text)) == want
        except Exception:
            text_ok = False

    def viol(detail, exc=None):
        res['violations'].append({'mech': classify(detail, b, exc), 'detail': '%s: %s' % (case['shape'], detail), 'witness': {'shape': case['shape']}})

    off = common.all_off()
    for preserve in (False, True):
        o = dict(off)
        o['preserve_shebang'] = preserve
        kw = common.opts_to_kwargs(o, pm)
        try:
            out = pm.minify(b, **kw)
        except Exception as e:
            viol('minify(bytes, all off, preserve_shebang=%s) raised %s: %s' % (preserve, type(e).__name__, str(e)[:100]), type(e).__name__)
            continue
        res['counters']['api_calls'] = res['counters'].get('api_calls', 0) + 1
        # (3) first-line rule
        if has_shebang and not bom:
            if preserve:
                try:
                    fl_text = fl.decode(enc or 'utf-8')
                except Exception:
                    fl_text = None
                first, _, rest = out.partition('\n')
                if first.endswith('\r') and b[len(fl):len(fl) + 2] == b'\r\n':
                    first = first[:-1]      # the CRLF terminator of the source line is reproduced with it: still the same first line
                res['counters']['shebang_checks'] = res['counters'].get('shebang_checks', 0) + 1
                if fl_text is not None and first != fl_text:
                    viol('preserved shebang differs: first output line %r, first source line %r' % (first[:80], fl_text[:80]))
                    continue
                body = rest
            else:
                if out.startswith('#!'):
                    viol('preserve_shebang=False but output starts with %r' % out[:40])
                body = out
        elif not has_shebang:
            if out.startswith('#!'):
                viol('source has no shebang but output starts with %r' % out[:40])
            body = out
        else:
            body = out.partition('\n')[2] if out.startswith('#!') else out
        # (1) strict tree
        try:
            got = ast.parse(body)
            if sdump(got) != want:
                viol('all-off result denotes a different program (preserve_shebang=%s): %s' % (preserve, first_diff(ref, got)))
        except Exception as e:
            viol('all-off result does not parse: %s' % e)
        # (1b) the property is about the result *encoded as UTF-8*: parse the bytes, so that whatever the first two lines declare takes effect
        try:
            got_b = ast.parse(out.encode('utf-8'))
            res['counters']['utf8_bytes_parsed'] = res['counters'].get('utf8_bytes_parsed', 0) + 1
            if sdump(got_b) != want:
                viol('result encoded as UTF-8 denotes a different program (preserve_shebang=%s): %s' % (preserve, first_diff(ref, got_b)))
        except Exception as e:
            viol('result encoded as UTF-8 does not parse (preserve_shebang=%s): %s' % (preserve, str(e)[:100]))
        # (2) bytes vs text
        if text_ok and not bom_shebang:
            try:
                out_t = pm.minify(text, **kw)
                res['counters']['bytes_vs_text_checks'] = res['counters'].get('bytes_vs_text_checks', 0) + 1
                if out_t != out:
                    viol('minify(bytes) != minify(text) (preserve_shebang=%s): %r vs %r' % (preserve, out[:80], out_t[:80]))
            except Exception as e:
                viol('minify(text) raised %s' % type(e).__name__, type(e).__name__)
    # default options: same printed output
    try:
        out_d = pm.minify(b)
        a = run_prog(b, True)
        r2 = run_prog(out_d, False)
        res['counters']['executions_compared'] = res['counters'].get('executions_compared', 0) + 1
        if a != r2:
            viol('default-option result prints %r, original prints %r' % (r2[1][:100], a[1][:100]))
        if text_ok and not bom_shebang and pm.minify(text) != out_d:
            viol('default options: minify(bytes) != minify(text)')
    except Exception as e:
        viol('minify(bytes) with default options raised %s: %s' % (type(e).__name__, str(e)[:80]), type(e).__name__)
        out_d = None
    # (4) CLI
    if case.get('cli') and out_d is not None:
        d = tempfile.mkdtemp(prefix='vf_c16_')
        try:
            with open(os.path.join(d, 'm.py'), 'wb') as f:
                f.write(b)
            rc, so, se = cli.run_cli(['m.py'], d, force_best_effort='1')
            res['counters']['cli_runs'] = res['counters'].get('cli_runs', 0) + 1
            if rc != 0:
                viol('CLI exit %d: %r' % (rc, se[-200:]))
            else:
                try:
                    if so.decode('utf-8') != out_d:
                        viol('CLI bytes decode to something else than the API result: %r vs %r' % (so[:80], out_d[:80]))
                except UnicodeDecodeError:
                    viol('CLI output is not UTF-8: %r' % so[:80])
            rc, so2, se = cli.run_cli(['-'], d, stdin=b, force_best_effort='1')
            if rc == 0 and so2 != so:
                viol('CLI stdin output differs from file output')
        finally:
            shutil.rmtree(d, ignore_errors=True)
    res['nontrivial'].append(case['shape'])
    res['matrix']['by_encoding'][case['encoding'] + '/' + str(case['cookie'])] = 1
    res['matrix']['by_newline'][case['newline']] = 1
    if res['violations']:
        res['status'] = 'violation'
        res['violations'] = res['violations'][:4]
    elif case.get('want_sample'):
        res['sample'] = {'shape': case['shape'], 'first_bytes': repr(b[:90]), 'api_first_line': (out_d or '')[:60]}
    return res


EXTRA = [
    ('latin1_shebang_nonascii', b'#!/usr/bin/env pyth\xf6n\n# -*- coding: latin-1 -*-\nx = "caf\xe9"\nprint(x)\n'),
    ('shebang_only', b'#!/usr/bin/python\n'),
    ('shebang_no_newline', b'#!/usr/bin/python'),
    ('shebang_crlf_only', b'#!/usr/bin/python\r\nprint(1)\r\n'),
    ('shebang_cr_only', b'#!/usr/bin/python\rprint(1)\r'),
    ('two_shebangs', b'#!/a\n#!/b\nprint(1)\n'),
    ('shebang_second_line', b'\n#!/usr/bin/python\nprint(1)\n'),
    ('comment_hash_bang_later', b'x = 1\n#!not a shebang\nprint(x)\n'),
    ('space_before_shebang', b' #!/usr/bin/python\nprint(1)\n' if False else b'#! /usr/bin/python\nprint(1)\n'),
    ('formfeed', b'x = 1\n\x0cprint(x)\n'),
    # the coding cookie sits on the shebang line itself: the line is reproduced, the output is UTF-8
    ('cookie_on_shebang_line_latin1', b'#!/usr/bin/python -*- coding: latin-1 -*-\nx = "caf\xe9"\nprint(ascii(x))\n'),
    ('cookie_on_shebang_line_utf8', u'#!/usr/bin/python -*- coding: utf-8 -*-\nx = "caf\u00e9"\nprint(ascii(x))\n'.encode('utf-8')),
    ('cookie_on_shebang_line_cp1252', b'#!/usr/bin/env python # vim: set fileencoding=cp1252 :\nx = "\x93q\x94"\nprint(ascii(x))\n'),
    # characters str.splitlines() treats as line ends but the tokenizer (and bytes.splitlines) do not: they belong to the shebang line
    ('shebang_formfeed_inside', b'#!/usr/bin/env python\x0c -u\nprint(1)\n'),
    ('shebang_vtab_inside', b'#!/usr/bin/env python\x0b -u\nprint(1)\n'),
    ('shebang_fs_gs_rs_inside', b'#!/usr/bin/env python \x1c a \x1d b \x1e c\nprint(1)\n'),
    ('shebang_nel_inside', u'#!/usr/bin/env python \x85 -u\nprint(1)\n'.encode('utf-8')),
    ('shebang_ls_ps_inside', u'#!/usr/bin/env python \u2028 a \u2029 b\nprint(1)\n'.encode('utf-8')),
    ('shebang_ls_crlf', u'#!/usr/bin/env python \u2028 a\r\nprint(1)\r\n'.encode('utf-8')),
    ('hash_bang_in_string_later', b'""""doc\n#!/bin/sh\necho hi\n"""\nprint(1)\n'),
    ('licence_then_hash_bang', b'# licence header\n#!/usr/bin/python\nprint(1)\n'),
    ('shebang_with_tab_and_spaces', b'#!\t/usr/bin/python   -O  \nprint(1)\n'),
    ('shebang_unicode_text', u'#!/usr/bin/env pyth\u00f6n \u4e2d\nprint(1)\n'.encode('utf-8')),
    ('mixed_newlines', b'x = 1\r\ny = 2\rz = 3\nprint(x, y, z)\n'),
    ('trailing_no_newline', b'print(1)'),
    ('string_with_cr', b'x = "a\\rb"\ny = """l1\r\nl2\rl3\nl4"""\nprint(repr(y))\n'),
    ('cookie_line2_after_comment', b'# just a comment\n# coding: latin-1\nx = "\xe9"\nprint(ascii(x))\n'),
    ('cookie_line3_ignored', b'#\n#\n# coding: latin-1\nx = "\xc3\xa9"\nprint(ascii(x))\n'),
]


def gen_cases(tier, seed):
    n = 420 if tier == 'quick' else None
    cs = encgen.cases(seed, n)
    out = []
    for i, c in enumerate(cs):
        d = {k: v for k, v in c.items() if k != 'data'}
        d['data_b64'] = base64.b64encode(c['data']).decode()
        d['cli'] = (i % (12 if tier == 'quick' else 6) == 0)
        d['want_sample'] = i % 90 == 0
        d['timeout'] = 50
        out.append(d)
    for tag, b in EXTRA:
        out.append({'shape': 'extra.' + tag, 'encoding': 'extra', 'cookie': None, 'newline': 'mixed', 'data_b64': base64.b64encode(b).decode(), 'cli': True})
    return out


def main(tier, seed):
    run = runner.Run(PROP, tier, seed)

    def on(c, r):
        slim = {'shape': c['shape']}
        if r.get('status') == 'violation' or 'inconclusive' in r:
            slim['data_b64'] = c['data_b64']
        run.add(slim, r)
    pool.run_cases(gen_cases(tier, seed), 'vf.props.C16:run_case', timeout=60, batch=6, on_result=on, deadline=run.deadline)
    # shebang handling with the minifier running in the other interpreters (python 2: str is bytes)
    sheb = [('ascii', b'#!/usr/bin/env python\nx = 1\nprint(x)\n', 'utf-8'),
            ('utf8_nonascii', u'#!/usr/bin/env pyth\u00f6n \u4e2d\nx = 1\nprint(x)\n'.encode('utf-8'), 'utf-8'),
            ('utf8_nonascii_cookie', u'#!/usr/bin/env pyth\u00f6n\n# -*- coding: utf-8 -*-\nx = u"caf\u00e9"\nprint(len(x))\n'.encode('utf-8'), 'utf-8'),
            ('latin1_cookie', b'#!/usr/bin/env pyth\xf6n\n# -*- coding: latin-1 -*-\nx = 1\nprint(x)\n', 'latin-1'),
            ('latin1_cookie_equals', b'#!/usr/bin/env pyth\xf6n\n# vim: set fileencoding=latin-1 :\nx = 1\nprint(x)\n', 'latin-1'),
            ('crlf', b'#!/usr/bin/python -u\r\nx = 1\r\nprint(x)\r\n', 'utf-8'),
            ('only_shebang', b'#!/bin/sh\n', 'utf-8'),
            ('shebang_spaces', b'#!   /usr/bin/python   -O  \nprint(1)\n', 'utf-8')]
    scases = [{'op': 'shebang', 'shape': 'xshebang.' + n, 'data_b64': base64.b64encode(b).decode(), 'encoding': e, 'case_timeout': 30} for n, b, e in sheb]
    for version, py in common.interpreters():
        if version == '3.12-venv':
            continue
        if tier == 'quick' and version not in ('2.7.18', '3.6.15', '3.9.18', '3.13.0'):
            continue

        def on_s(c, r, version=version):
            slim = {'shape': c['shape'], 'interpreter': version, 'layer': 'cross-shebang', 'data_b64': c['data_b64']}
            if 'inconclusive' in r and r.get('status') is None:
                run.add(slim, r)
                return
            out = {'status': r.get('status'), 'violations': [], 'counters': {}, 'nontrivial': []}
            if r.get('status') == 'skip':
                out['reason'] = 'cross-shebang: ' + r.get('reason', 'skip')
            else:
                out['counters'] = {'cross_interpreter_shebang_checks': r.get('checks', 0)}
                out['nontrivial'] = ['xs|%s|%s' % (version, c['shape'])]
            for v in r.get('violations') or []:
                out['violations'].append({'mech': None, 'detail': '%s %s: %s' % (version, c['shape'], v['detail']), 'witness': {'interpreter': version}})
            run.add(slim, out)
        env = common.clean_env()
        env['PYTHONPATH'] = common.REPO_SRC
        pool.run_cases(scases, None, cmd=[py, '-W', 'ignore', os.path.join(common.VERIF, 'vf', 'compat_worker.py')], env=env, timeout=40, batch=8, on_result=on_s, nworkers=2)
    return run.finish(
        rule='6 programs with non-ASCII constants x 13 encodings/cookie spellings (utf-8, BOM, latin-1, cp1252, iso-8859-15, koi8-r, '
             'shift_jis, euc-jp, gbk, cp437) x {LF, CRLF, CR} x 9 shebang lines, plus hand-written edge files; API on bytes and on the '
             'decoded text, with preserve_shebang on/off, all-off and default options, and the real CLI; non-trivial/distinct = distinct '
             '(encoding, cookie, newline, shebang) shapes accepted by the interpreter and checked',
        assumptions=['ast.parse(bytes) of the interpreter is the reference decoding', 'BOM followed by #! is treated as unspecified for the first-line rule'],
        min_nontrivial=50, required_counters=['api_calls', 'shebang_checks', 'bytes_vs_text_checks', 'executions_compared', 'cli_runs', 'cross_interpreter_shebang_checks'])


def replay(path):
    w = runner.load_replay(path)
    c = w['case']
    r = run_case({'shape': c['shape'], 'data_b64': c['data_b64'], 'encoding': 'replay', 'cookie': None, 'newline': '?', 'cli': True})
    print(json.dumps(r, indent=1)[:3000])
    if r.get('violations'):
        print('VIOLATION property=%s replay=%s' % (PROP, path))
        return 1
    return 0
