"""C17 - turning a size optimisation on never makes the output longer (pinned real-code corpus).

Monitor: len(minify(S, base + o)) vs len(minify(S, base - o)) for the size-motivated options o and the bases
{all off, default}; witness = file, option, base, both lengths, first differing region.
"""
import ast
import base64
import difflib
import json
import os
import re

from vf import common, pool, runner

PROP = 'C17'
SIZE_OPTIONS = ['combine_imports', 'remove_pass', 'remove_object_base', 'remove_builtin_exception_brackets',
                'remove_explicit_return_none', 'convert_posargs_to_args', 'hoist_literals', 'rename_locals', 'rename_globals',
                'constant_folding', 'remove_variable_annotations', 'remove_return_annotations', 'remove_argument_annotations',
                'remove_class_attribute_annotations']


def _minify(pm, src, opts):
    return pm.minify(src, **common.opts_to_kwargs(opts, pm))


def _aliases(out):
    """introduced module/function prologue aliases Name = Constant in an output: {name: value}"""
    res = {}
    try:
        t = ast.parse(out)
    except Exception:
        return res
    for n in ast.walk(t):
        if isinstance(n, ast.Assign) and len(n.targets) == 1 and isinstance(n.targets[0], ast.Name) and isinstance(n.value, ast.Constant):
            res.setdefault(n.targets[0].id, []).append(n.value.value)
    return res


def classify(option, src, on, off):
    if option == 'hoist_literals':
        # every alias the two outputs differ by has a numeric value  (NodeVisitor.visit_Constant dispatch: 1.0 in [None, True, False])
        a_on = _aliases(on)
        a_off = _aliases(off)
        extra = []
        for k, vals in a_on.items():
            for v in vals:
                if v not in a_off.get(k, []):
                    extra.append(v)
        strs = [v for v in extra if isinstance(v, (str, bytes))]
        nums = [v for v in extra if isinstance(v, (int, float, complex)) and not isinstance(v, bool)]
        # remove the numeric aliases' effect: would the string/bytes/None/True/False aliases alone still be a loss? we cannot
        # know without re-running, so claim only when no string/bytes alias was introduced at all or the loss is explained
        # by the numeric ones (each numeric alias costs at least its definition)
        if nums and not strs:
            return 'C17.hoist.numeric_constant'
        if nums:
            return 'C17.hoist.numeric_constant+strings'
    return None


def run_case(case):
    import python_minifier as pm
    src = base64.b64decode(case['src_b64'])
    res = {'status': 'held', 'violations': [], 'nontrivial': [], 'counters': {}, 'matrix': {'option_changed_output': {}}}
    try:
        ast.parse(src)
    except Exception:
        return {'status': 'skip', 'reason': 'unparseable'}
    for option in case['options']:
        for base_name in ('all_off', 'default'):
            base = common.all_off() if base_name == 'all_off' else common.defaults()
            base['preserve_shebang'] = True
            on = dict(base)
            off = dict(base)
            on[option] = True
            off[option] = False
            try:
                out_on = _minify(pm, src, on)
                out_off = _minify(pm, src, off)
            except Exception as e:
                res['counters']['minify_raised_' + type(e).__name__] = res['counters'].get('minify_raised_' + type(e).__name__, 0) + 1
                continue
            res['counters']['pairs'] = res['counters'].get('pairs', 0) + 1
            if out_on != out_off:
                res['nontrivial'].append('%s|%s|%s' % (case['file'], option, base_name))
                res['matrix']['option_changed_output'][option] = res['matrix']['option_changed_output'].get(option, 0) + 1
            if len(out_on) > len(out_off):
                mech = classify(option, src, out_on, out_off)
                sm = difflib.SequenceMatcher(None, out_off, out_on, autojunk=False) if len(out_on) < 20000 else None
                region = ''
                if sm:
                    for tag, i1, i2, j1, j2 in sm.get_opcodes():
                        if tag != 'equal':
                            region = '%r -> %r' % (out_off[max(0, i1 - 20):i2 + 20], out_on[max(0, j1 - 20):j2 + 20])
                            break
                res['violations'].append({
                    'mech': mech,
                    'detail': '%s: %s on (%s base) gives %d bytes > %d bytes with it off; first difference %s' % (
                        os.path.basename(case['file']), option, base_name, len(out_on), len(out_off), region[:200]),
                    'witness': {'file': case['file'], 'option': option, 'base': base_name, 'len_on': len(out_on), 'len_off': len(out_off)}})
    if res['violations']:
        res['status'] = 'violation'
    else:
        res['sample'] = {'file': os.path.basename(case['file']), 'options': case['options'][:3]}
    return res


# ---- cost-model boundary grid: one renamable / hoistable thing per tiny module, name length x number of uses around break-even ---------
NAMES = {1: 'q', 2: 'qz', 3: 'qzv', 4: 'qzvk', 5: 'qzvkw', 6: 'qzvkwx', 7: 'qzvkwxy', 8: 'qzvkwxyj', 10: 'qzvkwxyjmn', 14: 'qzvkwxyjmnoprs'}
BUILTINS_BY_LEN = {3: 'len', 4: 'dict', 5: 'print', 6: 'sorted', 7: 'reversed', 8: 'callable', 9: 'enumerate', 10: 'isinstance'}


def grid_modules():
    """(tag, option, source). Names the grid does not vary are single letters already or listed in __all__, so nothing else can pay for a loss."""
    out = []
    for L, name in NAMES.items():
        for k in range(1, 7):
            uses = ', '.join([name] * k)
            out.append(('local_var.L%d.k%d' % (L, k), 'rename_locals', 'def f():\n    %s = g()\n    return [%s]\n' % (name, uses)))
            out.append(('argument.L%d.k%d' % (L, k), 'rename_locals', 'def f(%s):\n    return [%s]\n' % (name, uses)))
            out.append(('argument_compound_body.L%d.k%d' % (L, k), 'rename_locals', 'def f(%s):\n    if g():\n        return [%s]\n' % (name, uses)))
            out.append(('argument_nested_compound_body.L%d.k%d' % (L, k), 'rename_locals', 'def f(%s):\n    for i in g():\n        if i:\n            return [%s]\n' % (name, uses)))
            out.append(('argument_in_method_compound.L%d.k%d' % (L, k), 'rename_locals', 'class C:\n    def m(self, %s):\n        while g():\n            return [%s]\n' % (name, uses)))
            out.append(('argument_def_in_except_compound.L%d.k%d' % (L, k), 'rename_locals', 'try:\n    import m\nexcept ImportError:\n    def f(%s):\n        if g():\n            return [%s]\n' % (name, uses)))
            out.append(('argument_def_in_if_in_for_compound.L%d.k%d' % (L, k), 'rename_locals', 'for i in g():\n    if i:\n        def f(%s):\n            while g():\n                return [%s]\n' % (name, uses)))
            out.append(('argument_match_first.L%d.k%d' % (L, k), 'rename_locals', 'def f(%s):\n    match g():\n        case 1:\n            return [%s]\n' % (name, uses)))
            out.append(('kwonly_argument.L%d.k%d' % (L, k), 'rename_locals', 'def f(*, %s=1):\n    return [%s]\n' % (name, uses)))
            out.append(('two_arguments.L%d.k%d' % (L, k), 'rename_locals', 'def f(%s, %s2):\n    return [%s], %s2\n' % (name, name, uses, name)))
            out.append(('local_import.L%d.k%d' % (L, k), 'rename_locals', 'def f():\n    import %s\n    return [%s]\n' % (name, uses)))
            out.append(('local_import_twice.L%d.k%d' % (L, k), 'rename_locals', 'def f():\n    try:\n        import %s\n    except ImportError:\n        import %s\n    return [%s]\n' % (name, name, uses)))
            out.append(('local_from_import.L%d.k%d' % (L, k), 'rename_locals', 'def f():\n    from m import %s\n    return [%s]\n' % (name, uses)))
            out.append(('local_def.L%d.k%d' % (L, k), 'rename_locals', 'def f():\n    def %s():\n        pass\n    return [%s]\n' % (name, uses)))
            out.append(('except_as.L%d.k%d' % (L, k), 'rename_locals', 'def f():\n    try:\n        g()\n    except E as %s:\n        return [%s]\n' % (name, uses)))
            out.append(('comprehension.L%d.k%d' % (L, k), 'rename_locals', 'def f(a):\n    return [[%s] for %s in a]\n' % (uses, name)))
            out.append(('match_as.L%d.k%d' % (L, k), 'rename_locals', 'def f(a):\n    match a:\n        case [1, 2] as %s:\n            return [%s]\n' % (name, uses)))
            out.append(('global_var.L%d.k%d' % (L, k), 'rename_globals', '%s = g()\nf([%s])\n' % (name, uses)))
            out.append(('global_import.L%d.k%d' % (L, k), 'rename_globals', 'import %s\nf([%s])\n' % (name, uses)))
            out.append(('global_import_twice.L%d.k%d' % (L, k), 'rename_globals', 'try:\n    import %s\nexcept ImportError:\n    import %s\nf([%s])\n' % (name, name, uses)))
            out.append(('global_def.L%d.k%d' % (L, k), 'rename_globals', 'def %s():\n    pass\nf([%s])\n' % (name, uses)))
            lit = repr('s' * L)
            out.append(('hoist_str.L%d.k%d' % (L, k), 'hoist_literals', 'f([%s])\n' % ', '.join([lit] * k)))
            out.append(('hoist_str_in_function.L%d.k%d' % (L, k), 'hoist_literals', 'def h():\n    return [%s]\n' % ', '.join([lit] * k)))
            out.append(('hoist_str_in_function_compound.L%d.k%d' % (L, k), 'hoist_literals', 'def h():\n    if g():\n        return [%s]\n' % ', '.join([lit] * k)))
            out.append(('hoist_str_in_method_compound.L%d.k%d' % (L, k), 'hoist_literals', 'class C:\n    def m(self):\n        for i in g():\n            return [%s]\n' % ', '.join([lit] * k)))
            out.append(('hoist_str_after_keyword.L%d.k%d' % (L, k), 'hoist_literals', 'def h(a):\n' + ''.join('    if a == %d:\n        return %s\n' % (i, lit) for i in range(k))))
            out.append(('hoist_str_between_keywords.L%d.k%d' % (L, k), 'hoist_literals', 'def h(a):\n    return [%s]\n' % ', '.join(['%s if a else %s' % (lit, lit)] * ((k + 1) // 2))))
            out.append(('hoist_str_def_in_except_compound.L%d.k%d' % (L, k), 'hoist_literals', 'try:\n    import m\nexcept ImportError:\n    def h():\n        if g():\n            x = [%s]\n' % ', '.join([lit] * k)))
            out.append(('hoist_str_match_first.L%d.k%d' % (L, k), 'hoist_literals', 'def h():\n    match g():\n        case 1:\n            x = [%s]\n' % ', '.join([lit] * k)))
            out.append(('hoist_bytes.L%d.k%d' % (L, k), 'hoist_literals', 'f([%s])\n' % ', '.join(['b' + lit] * k)))
    for k in range(1, 9):
        for c in ('None', 'True', 'False'):
            out.append(('hoist_%s.k%d' % (c, k), 'hoist_literals', 'f([%s])\n' % ', '.join([c] * k)))
            out.append(('hoist_%s_in_function.k%d' % (c, k), 'hoist_literals', 'def h():\n    return [%s]\n' % ', '.join([c] * k)))
        for L, b in BUILTINS_BY_LEN.items():
            out.append(('builtin.%s.k%d' % (b, k), 'rename_globals', '__all__ = []\n' + ''.join('%s(%d)\n' % (b, i) for i in range(k))))
            out.append(('builtin_in_function.%s.k%d' % (b, k), 'rename_globals', '__all__ = ["h"]\ndef h():\n    return [%s]\n' % ', '.join([b] * k)))
    return out


def run_grid_case(case):
    import python_minifier as pm
    res = {'status': 'held', 'violations': [], 'nontrivial': [], 'counters': {'grid_pairs': 0}}
    for tag, option, src in case['items']:
        for base_name in ('all_off', 'default'):
            base = common.all_off() if base_name == 'all_off' else common.defaults()
            on = dict(base)
            off = dict(base)
            on[option] = True
            off[option] = False
            try:
                out_on = _minify(pm, src, on)
                out_off = _minify(pm, src, off)
            except Exception:
                continue
            res['counters']['grid_pairs'] += 1
            if out_on != out_off:
                res['nontrivial'].append('grid|%s|%s' % (tag, base_name))
            if len(out_on) > len(out_off):
                res['violations'].append({'mech': 'C17.grid.' + tag.split('.')[0], 'detail': 'cost grid %s: %s on (%s base) gives %d bytes > %d: %r vs %r' % (
                    tag, option, base_name, len(out_on), len(out_off), out_on, out_off), 'witness': {'src': src, 'option': option, 'base': base_name}})
    if res['violations']:
        res['status'] = 'violation'
    return res


def gen_cases(tier, seed):
    files = list(common.corpus_files('real'))
    r = common.rng(seed, 'C17')
    if tier == 'quick':
        small = [f for f in files if os.path.getsize(f) < 16000]
        r.shuffle(small)
        files = small[:45]
    else:
        files = files + list(common.corpus_files('tests312')) + common.extended_corpus()
    cases = []
    for f in files:
        b = base64.b64encode(common.read_text(f)).decode('ascii')
        # split options across cases so the pool balances
        for i in range(0, len(SIZE_OPTIONS), 5):
            cases.append({'file': f, 'src_b64': b, 'options': SIZE_OPTIONS[i:i + 5], 'timeout': 110})
    return cases


def main(tier, seed):
    run = runner.Run(PROP, tier, seed)
    cases = gen_cases(tier, seed)

    def on(c, r):
        run.add({'file': c['file'], 'options': c['options']}, r)
    pool.run_cases(cases, 'vf.props.C17:run_case', timeout=120, batch=1, on_result=on, deadline=run.deadline)
    grid = grid_modules()
    chunks = [{'items': grid[i:i + 60], 'timeout': 110} for i in range(0, len(grid), 60)]

    def on_g(c, r):
        slim = {'layer': 'grid', 'tags': [t for t, _, _ in c['items']][:3]}
        if r.get('status') == 'violation':
            slim['items'] = c['items']
        run.add(slim, r)
    pool.run_cases(chunks, 'vf.props.C17:run_grid_case', timeout=120, batch=1, on_result=on_g, deadline=run.deadline)
    # the cost grid again with the minifier running in other interpreters (python 2 parameters are Name nodes with a Param context, 3.6 / 3.7 literals are Num / Str)
    step = 5 if tier == 'quick' else 1
    gops = [{'op': 'size_pair', 'src': src, 'option': option, 'tag': tag, 'case_timeout': 30} for tag, option, src in grid[::step]]
    for version, py in common.interpreters():
        if version == '3.12-venv' or run.timed_out():
            continue
        if tier == 'quick' and version not in ('2.7.18', '3.6.15', '3.10.13', '3.13.0'):
            continue

        def on_x(c, r, version=version):
            slim = {'layer': 'grid-cross', 'interpreter': version, 'tag': c['tag'], 'option': c['option']}
            if 'inconclusive' in r and r.get('status') is None:
                run.add(slim, r)
                return
            out = {'status': r.get('status'), 'violations': [], 'counters': {}, 'nontrivial': []}
            if r.get('status') == 'skip':
                out['reason'] = 'grid-cross: ' + r.get('reason', 'skip')
            else:
                out['counters'] = {'cross_interpreter_grid_pairs': r.get('pairs', 0)}
                run.cell('cross_interpreter_grid', version)
                if r.get('changed'):
                    out['nontrivial'] = ['gridx|%s|%s' % (version, c['tag'])]
            for v in r.get('violations') or []:
                out['violations'].append({'mech': 'C17.grid.' + c['tag'].split('.')[0], 'detail': '%s cost grid %s: %s' % (version, c['tag'], v['detail']), 'witness': {'src': c['src'], 'interpreter': version}})
            if out['violations']:
                slim['src'] = c['src']
            run.add(slim, out)
        env = common.clean_env()
        env['PYTHONPATH'] = common.REPO_SRC
        pool.run_cases(gops, None, cmd=[py, '-W', 'ignore', os.path.join(common.VERIF, 'vf', 'compat_worker.py')], env=env, timeout=40, batch=25, on_result=on_x, deadline=run.deadline, nworkers=4)
    return run.finish(
        rule='pinned corpus of CPython 3.12 stdlib modules (sha256 manifest in corpus/; thorough: plus the pure-Python packages of the installed 3.12 standard library) x 14 size-motivated switches x bases '
             '{all off, default}; non-trivial/distinct = distinct (file, option, base) where the option changed the output at all',
        assumptions=['the pinned corpus stands for "real-world modules"', 'length in characters of the returned str'],
        min_nontrivial=50, required_counters=['pairs', 'grid_pairs', 'cross_interpreter_grid_pairs'])


def replay(path):
    w = runner.load_replay(path)
    c = w['case']
    wit = w['witness']
    if c.get('layer') == 'grid':
        r = run_grid_case({'items': [i for i in c['items'] if i[2] == wit['src']]})
        print(json.dumps(r, indent=1)[:3000])
        if r.get('violations'):
            print('VIOLATION property=%s replay=%s' % (PROP, path))
            return 1
        return 0
    r = run_case({'file': c['file'], 'src_b64': base64.b64encode(common.read_text(c['file'])).decode('ascii'), 'options': [wit['option']]})
    print(json.dumps(r, indent=1)[:3000])
    if r.get('violations'):
        print('VIOLATION property=%s replay=%s' % (PROP, path))
        return 1
    return 0
