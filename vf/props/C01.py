"""C01 - the minified module behaves exactly like the original (documented-safe options).

Monitor / oracle: O4 (vf/oracle/observe.py) runs the original and every minified variant in forked children and compares stdout, terminating
exception type / exit status, the public module namespace and the sys.monitoring PY_RETURN / PY_YIELD / RAISE history. A program is used only
if two runs of the original agree. Thorough adds self-hosting (the repository's own test suite against a minified copy of the package) and a
stdlib unittest differential.
"""
import ast
import base64
import json
import os
import re
import shutil
import subprocess
import sys
import tempfile

from vf import common, options, pool, runner
from vf.gen import litgen, modgen, scopegen, seeds, triggergen
from vf.oracle import observe

PROP = 'C01'


def _direct_names(cls):
    """(stored, loaded) names of the class body itself (not of scopes nested in it)"""
    stored, loaded = set(), set()
    stack = list(cls.body)
    while stack:
        n = stack.pop()
        if isinstance(n, (ast.FunctionDef, ast.AsyncFunctionDef, ast.ClassDef)):
            stored.add(n.name)
            continue
        if isinstance(n, (ast.Lambda, ast.ListComp, ast.SetComp, ast.DictComp, ast.GeneratorExp)):
            continue
        if isinstance(n, ast.Name):
            (loaded if isinstance(n.ctx, ast.Load) else stored).add(n.id)
        elif isinstance(n, ast.alias):
            stored.add((n.asname or n.name).split('.')[0])
        stack.extend(ast.iter_child_nodes(n))
    return stored, loaded


def class_fallback_names(tree):
    """names X that a class body both binds and reads while a function around the class binds X too: the interpreter reads the *global* X there
    (LOAD_NAME), the minifier resolves the read to the function's X (known finding C03.class_body.global_fallback_in_function)"""
    out = set()

    def walk(node, funcs):
        for ch in ast.iter_child_nodes(node):
            if isinstance(ch, ast.ClassDef) and funcs:
                st, ld = _direct_names(ch)
                for x in st & ld:
                    for f in funcs:
                        if any((isinstance(m, ast.Name) and m.id == x and not isinstance(m.ctx, ast.Load)) or (isinstance(m, ast.arg) and m.arg == x) or
                               (isinstance(m, (ast.FunctionDef, ast.AsyncFunctionDef, ast.ClassDef)) and m.name == x and m is not f)
                               for m in ast.walk(f)):
                            out.add(x)
            walk(ch, funcs + [ch] if isinstance(ch, (ast.FunctionDef, ast.AsyncFunctionDef, ast.Lambda)) else funcs)
    walk(tree, [])
    return out


def static_mech(src, opts, out):
    """mechanism keys that can be decided from the texts alone (used by the cross-interpreter layer too)"""
    try:
        tree = ast.parse(src)
    except Exception:
        return None
    if opts.get('combine_imports'):
        # adjacent from-imports of one module inside a try body: merged, every listed submodule is imported before any name is bound
        for n in ast.walk(tree):
            if isinstance(n, ast.Try):
                for x, y in zip(n.body, n.body[1:]):
                    if isinstance(x, ast.ImportFrom) and isinstance(y, ast.ImportFrom) and x.module == y.module and x.level == y.level and x.module != '__future__':
                        return 'C01.combine_imports.partial_binding'
    if opts.get('rename_locals') or opts.get('rename_globals'):
        # a renamed class mangles its __private names with the new class name; an explicit _Class__name reference elsewhere no longer matches
        classes = set(n.name for n in ast.walk(tree) if isinstance(n, ast.ClassDef))
        for n in ast.walk(tree):
            if isinstance(n, ast.Attribute) and n.attr.startswith('_') and any(n.attr.startswith('_%s__' % c) for c in classes):
                return 'C01.class_rename.private_name_mangling'
        # `self` (or a positional-only parameter) renamed in place to a short name that a caller passes through **kwargs
        short = set(k.arg for n in ast.walk(tree) if isinstance(n, ast.Call) for k in n.keywords if k.arg and len(k.arg) <= 2)
        if short and any(isinstance(n, (ast.FunctionDef, ast.AsyncFunctionDef)) and n.args.kwarg is not None for n in ast.walk(tree)) and out:
            try:
                for n in ast.walk(ast.parse(out)):
                    if isinstance(n, (ast.FunctionDef, ast.AsyncFunctionDef)) and n.args.kwarg is not None and any(a.arg in short for a in n.args.posonlyargs + n.args.args):
                        return 'C01.inplace_rename.collides_with_kwargs'
            except Exception:
                pass
    if opts.get('remove_variable_annotations'):
        # a yield inside the annotation of a local variable is never evaluated but makes the function a generator
        for n in ast.walk(tree):
            if isinstance(n, ast.AnnAssign) and any(isinstance(m, (ast.Yield, ast.YieldFrom, ast.Await)) for m in ast.walk(n.annotation)):
                return 'C01.annotations.yield_in_removed_annotation'
    fb = class_fallback_names(tree)
    if fb and out:
        try:
            otree = ast.parse(out)
        except Exception:
            otree = None
        if otree is not None:
            top_in = set(n.id for st in tree.body for n in ast.walk(st) if isinstance(n, ast.Name) and not isinstance(n.ctx, ast.Load)) if False else \
                set(t.id for st in tree.body if isinstance(st, ast.Assign) for t in st.targets if isinstance(t, ast.Name))
            top_out = set(t.id for st in otree.body if isinstance(st, ast.Assign) for t in st.targets if isinstance(t, ast.Name))
            if (top_out - top_in) & fb:
                return 'C03.class_body.global_fallback_in_function'
    return None


def static_object_mech(src, opts):
    try:
        tree = ast.parse(src)
    except Exception:
        return None
    if not opts.get('remove_object_base'):
        return None
    binds_object = any((isinstance(n, ast.ClassDef) and n.name == 'object') or (isinstance(n, ast.Name) and n.id == 'object' and isinstance(n.ctx, ast.Store)) or
                       (isinstance(n, ast.alias) and (n.asname or n.name) == 'object') or (isinstance(n, ast.arg) and n.arg == 'object') for n in ast.walk(tree))
    object_not_last = any(isinstance(n, ast.ClassDef) and any(isinstance(b, ast.Name) and b.id == 'object' for b in n.bases[:-1]) for n in ast.walk(tree))
    if object_not_last:
        return 'C01.object_base.mro_conflict'
    if binds_object:
        return 'C01.object_base.shadowed'
    return None


def classify(src, opts, pm, orig, detail, out=None):
    """mechanism keys (known_findings.txt)"""
    try:
        tree = ast.parse(src)
    except Exception:
        return None
    m = static_mech(src, opts, out)
    if m:
        return m
    binds_object = any((isinstance(n, ast.ClassDef) and n.name == 'object') or (isinstance(n, ast.Name) and n.id == 'object' and isinstance(n.ctx, ast.Store)) or
                       (isinstance(n, ast.alias) and (n.asname or n.name) == 'object') or (isinstance(n, ast.arg) and n.arg == 'object') for n in ast.walk(tree))
    object_not_last = any(isinstance(n, ast.ClassDef) and any(isinstance(b, ast.Name) and b.id == 'object' for b in n.bases[:-1]) for n in ast.walk(tree))
    if object_not_last and opts.get('remove_object_base'):
        o2 = dict(opts)
        o2['remove_object_base'] = False
        try:
            out2 = pm.minify(src, **common.opts_to_kwargs(o2, pm))
            if not observe.same(orig, observe.observe(out2)):
                return 'C01.object_base.mro_conflict'
        except Exception:
            pass
    if binds_object and opts.get('remove_object_base'):
        o2 = dict(opts)
        o2['remove_object_base'] = False
        try:
            out2 = pm.minify(src, **common.opts_to_kwargs(o2, pm))
            if not observe.same(orig, observe.observe(out2)):
                return 'C01.object_base.shadowed'
        except Exception:
            pass
    return None


def run_case(case):
    import python_minifier as pm
    src = case['src']
    res = {'status': 'held', 'violations': [], 'counters': {}, 'nontrivial': [], 'matrix': {'transform_fired': {}}}
    try:
        compile(src, 'p', 'exec', dont_inherit=True)
    except Exception:
        return {'status': 'skip', 'reason': 'input does not compile'}
    a = observe.observe(src)
    if a['outcome'] in ('timeout', 'child-died'):
        return {'status': 'skip', 'reason': 'original: ' + a['outcome']}
    b = observe.observe(src, perturb=50021)        # further runs with shifted heap addresses: expose id()/address dependent programs
    if not observe.same(a, b):
        b = observe.observe(src, perturb=77777)
    if not observe.same(a, b):
        b = observe.observe(src, perturb=31337)
    if observe.same(a, b):
        return {'status': 'skip', 'reason': 'original is not self-stable (%s)' % ','.join(observe.same(a, b))}
    res['counters']['programs_run'] = 1
    res['counters']['history_events'] = len(a['history'])
    res['counters']['stdout_lines'] = a['stdout'].count('\n')
    try:
        plain = pm.minify(src, **common.opts_to_kwargs(common.all_off(), pm))
    except Exception:
        plain = None
    for name, o in case['optsets']:
        try:
            out = pm.minify(src, **common.opts_to_kwargs(o, pm))
        except Exception as e:
            res['counters']['minify_raised (C08)'] = res['counters'].get('minify_raised (C08)', 0) + 1
            continue
        q = observe.observe(out)
        if q['outcome'].startswith('compile-error'):
            res['counters']['output does not compile (C03/C08)'] = res['counters'].get('output does not compile (C03/C08)', 0) + 1
            continue
        res['counters']['variants_run'] = res['counters'].get('variants_run', 0) + 1
        if out != plain:
            res['nontrivial'].append(common.sha(src) + '|' + common.opts_key(o))
        d = observe.same(a, q)
        if d:
            mech = classify(src, o, pm, a, d, out)
            res['violations'].append({'mech': mech, 'detail': 'behaviour differs under [%s] (%s): %s' % (name, ','.join(k for k in common.SAFE_SWITCHES if o.get(k)), observe.describe_diff(a, q)),
                                      'witness': {'optset': name, 'opts': o, 'out': out[:2500]}})
    if res['violations']:
        res['status'] = 'violation'
        res['violations'] = res['violations'][:4]
    elif case.get('want_sample'):
        res['sample'] = {'shape': case['shape'], 'src': src[:400], 'stdout': a['stdout'][:200], 'outcome': a['outcome'], 'history_events': len(a['history']),
                         'namespace_names': sorted(a['namespace'])[:10], 'variants': [n for n, _ in case['optsets']]}
    return res


def programs(tier, seed):
    quick = tier == 'quick'
    for tag, s in seeds.all_seeds():
        if tag.startswith(('d8', 'd12', 'd15', 'star_import', 'module_reads_its_annotations')):
            continue
        yield 'seed:' + tag, s
    trig = list(triggergen.cases())
    r = common.rng(seed, 'C01-trig')
    r.shuffle(trig)
    trig = [c for c in trig if c['shape'].endswith('@special')] + [c for c in trig if not c['shape'].endswith('@special')]
    for c in trig[:(300 if quick else len(trig))]:
        yield c['shape'], c['src']
    for i in range(220 if quick else 5000):
        s, _ = modgen.generate(seed, 90000 + i, guarded=True, size=8 + (i % 4) * 4)
        yield 'modgen.guarded', s
    for i in range(150 if quick else 3000):
        yield 'litgen', litgen.generate(seed, 95000 + i)
    # annotation positions are left to C03/C04/C06: an annotation whose evaluation raises (a class attribute named from a method signature)
    # stops raising once the annotation is removed - the documentation's own caveat for remove_annotations
    for c in scopegen.enumerate_cases(max_stmt_depth=2, expr_depth=(0, 1), sample=700 if quick else 24000, seed=seed + 3):
        if 'annotation' not in c['shape']:
            yield c['shape'], c['src']
    for c in scopegen.sampled_cases(seed + 3, 260 if quick else 7000):
        if 'annotation' not in c['shape']:
            yield c['shape'], c['src']
    from vf.props import C04
    for i, s in enumerate(C04.IFACE):
        yield 'iface:%d' % i, s


def gen_cases(tier, seed):
    r = common.rng(seed, 'C01')
    safe = options.safe_sets()
    cases = []
    for shape, src in programs(tier, seed):
        n = 5 if tier == 'quick' else 12
        sets = [safe[0]] + [safe[(len(cases) * 3 + j) % len(safe)] for j in range(1, n - 1)] + [('random_safe', options.random_safe(r))]
        cases.append({'shape': shape, 'src': src, 'optsets': sets, 'timeout': 120})
    for i, c in enumerate(cases):
        c['want_sample'] = i % 400 == 0
    return cases


# ---------------------------------------------------------------------------------------------------- cross-interpreter layer
def cross_programs(tier, seed):
    quick = tier == 'quick'
    for tag, s in seeds.all_seeds():
        if tag.startswith(('d8', 'd12', 'd15', 'star_import', 'module_reads_its_annotations')):
            continue
        yield 'seed:' + tag, s
    for tag, s in list(getattr(seeds, 'VERSION_SENSITIVE', [])) + list(getattr(seeds, 'PY2_SEEDS', [])):
        yield 'vseed:' + tag, s
    trig = list(triggergen.cases())
    r = common.rng(seed, 'C01-cross-trig')
    r.shuffle(trig)
    trig = [c for c in trig if c['shape'].endswith('@special')] + [c for c in trig if not c['shape'].endswith('@special')]
    for c in trig[:(120 if quick else 1500)]:
        yield c['shape'], c['src']
    for i in range(60 if quick else 1200):
        s, _ = modgen.generate(seed, 190000 + i, guarded=True, size=8 + (i % 4) * 4)
        yield 'modgen.guarded', s
    for i in range(40 if quick else 800):
        yield 'litgen', litgen.generate(seed, 195000 + i)
    for c in scopegen.sampled_cases(seed + 11, 120 if quick else 3000):
        if 'annotation' not in c['shape']:
            yield c['shape'], c['src']
    from vf.props import C04
    for i, s in enumerate(C04.IFACE):
        yield 'iface:%d' % i, s


def cross_interpreter(run, tier, seed):
    """P and minify(P) (minifier running in that interpreter) executed in every other installed interpreter: stdout, terminating exception / exit status, public namespace"""
    r = common.rng(seed, 'C01-cross')
    safe = options.safe_sets()
    cases = []
    for shape, src in cross_programs(tier, seed):
        sets = [safe[0], safe[(len(cases) * 5 + 1) % len(safe)], ('random_safe', options.random_safe(r))]
        cases.append({'op': 'run', 'shape': shape, 'src': src, 'optsets': [[n, o] for n, o in sets], 'case_timeout': 40})
    for version, py in common.interpreters():
        if version == '3.12-venv':
            continue
        if run.timed_out():
            run.inconclusive['cross-interpreter layer cut at deadline before ' + version] = 1
            continue

        def on_x(c, res, version=version):
            out = {'status': res.get('status'), 'violations': [], 'counters': {}, 'nontrivial': []}
            if 'inconclusive' in res and res.get('status') is None:
                run.add({'shape': c['shape'], 'interpreter': version, 'src': c['src'], 'layer': 'cross'}, res)
                return
            if res.get('status') == 'skip':
                out['reason'] = 'cross-interpreter: ' + res.get('reason', 'skip')
            if res.get('status') in ('held', 'violation'):
                out['counters'] = {'cross_interpreter_programs_run': 1, 'cross_interpreter_variants_run': res.get('variants', 0),
                                   'cross_interpreter_stdout_lines': res.get('stdout_lines', 0)}
                run.cell('cross_interpreter_programs', version)
                if res.get('changed'):
                    out['nontrivial'] = ['cross|%s|%s' % (version, common.sha(c['src']))]
            if res.get('status') == 'inconclusive':
                out['reason'] = 'cross-interpreter: ' + res.get('reason', 'inconclusive')
            for v in res.get('violations') or []:
                mech = static_mech(c['src'], v.get('opts') or {}, v.get('out')) or static_object_mech(c['src'], v.get('opts') or {})
                out['violations'].append({'mech': mech, 'detail': '%s: behaviour differs under [%s]: %s' % (version, v.get('optset'), v['detail']),
                                          'witness': {'interpreter': version, 'opts': v.get('opts'), 'out': v.get('out')}})
            slim = {'shape': c['shape'], 'interpreter': version, 'layer': 'cross'}
            if out['violations']:
                slim['src'] = c['src']
                slim['optsets'] = c['optsets']
            run.add(slim, out)
        env = common.clean_env()
        env['PYTHONPATH'] = common.REPO_SRC
        env['PYTHONHASHSEED'] = '0'
        import os as _os
        pool.run_cases(cases, None, cmd=[py, '-W', 'ignore', _os.path.join(common.VERIF, 'vf', 'compat_worker.py')], env=env, timeout=60, batch=6, on_result=on_x,
                       deadline=run.deadline, nworkers=8)


# ---------------------------------------------------------------------------------------------------- self hosting
def self_hosting(run):
    """minify all of src/python_minifier with the default (safe) options into a scratch copy and run the repository's own test/ suite against it;
    per-test outcomes must equal those of the unminified run"""
    import python_minifier as pm
    tmp = tempfile.mkdtemp(prefix='vf_selfhost_')
    try:
        dst = os.path.join(tmp, 'src')
        shutil.copytree(common.REPO_SRC, dst)
        n = 0
        for root, _, files in os.walk(os.path.join(dst, 'python_minifier')):
            for f in files:
                if f.endswith('.py'):
                    p = os.path.join(root, f)
                    with open(p, 'rb') as fh:
                        s = fh.read()
                    with open(p, 'w', encoding='utf-8') as fh:
                        fh.write(pm.minify(s, filename=p))
                    n += 1
        run.count('self_hosting_files_minified', n)
        results = {}
        for label, src_dir in (('original', common.REPO_SRC), ('minified', dst)):
            env = common.clean_env()
            env['PYTHONPATH'] = src_dir
            env['PYMINIFY_FORCE_BEST_EFFORT'] = '1'
            xml = os.path.join(tmp, label + '.xml')
            subprocess.run([common.VENV_PY, '-m', 'pytest', '-q', '-p', 'no:cacheprovider', '-x', '--no-header', '-o', 'addopts=', (os.path.join(common.REPO, 'test') if os.path.isdir(os.path.join(common.REPO, 'test')) else '/repo/test'),
                            '--junitxml=' + xml, '--rootdir', tmp, '-c', os.devnull],
                           cwd=tmp, env=env, stdout=subprocess.PIPE, stderr=subprocess.STDOUT, timeout=900)
            import xml.etree.ElementTree as ET
            out = {}
            try:
                for tc in ET.parse(xml).iter('testcase'):
                    kind = 'passed'
                    for ch in tc:
                        if ch.tag in ('failure', 'error', 'skipped'):
                            kind = ch.tag
                    out[tc.get('classname', '') + '::' + tc.get('name', '')] = kind
            except Exception as e:
                out = {'<junit unreadable>': str(e)}
            results[label] = out
        a, b = results['original'], results['minified']
        run.count('self_hosting_tests_compared', len(a))
        diff = sorted(k for k in set(a) | set(b) if a.get(k) != b.get(k))
        if len(a) < 100:
            run.inconclusive['self-hosting: original run produced only %d test results' % len(a)] = 1
        elif diff:
            run.violation({'shape': 'self-hosting'}, {'mech': None, 'detail': 'self-hosting: %d of %d repository tests change outcome against the minified package, e.g. %s: %s -> %s' % (
                len(diff), len(a), diff[0], a.get(diff[0]), b.get(diff[0])), 'witness': {'tests': diff[:20]}})
        else:
            run.nontrivial.add('self-hosting:%d tests identical' % len(a))
    finally:
        shutil.rmtree(tmp, ignore_errors=True)


def main(tier, seed):
    run = runner.Run(PROP, tier, seed)
    cases = gen_cases(tier, seed)

    def on(c, r):
        slim = {'shape': c['shape']}
        if r.get('status') == 'violation' or 'inconclusive' in r:
            slim['src'] = c['src']
        run.cell('program_class', c['shape'].split('|')[0].split(':')[0].split('.')[0])
        run.add(slim, r)
    pool.run_cases(cases, 'vf.props.C01:run_case', timeout=150, batch=3, on_result=on, deadline=run.deadline)
    cross_interpreter(run, tier, seed)
    try:
        self_hosting(run)
    except Exception as e:
        run.inconclusive['self-hosting harness error %s' % type(e).__name__] = 1
    # stdlib unittest differential (frozen list of modules that agree on the unchanged tree; quick = the fastest few)
    from vf.props import c01_stdlib
    fl = c01_stdlib.frozen_list()
    mods = list(fl.get('modules') or [])
    if tier == 'quick':
        secs = fl.get('seconds') or {}
        mods = sorted([m for m in mods if (secs.get(m) or 99) < 4], key=lambda m: (secs.get(m) or 99, m))[:8]

    def on_s(c, r):
        run.add({'shape': 'stdlib-differential', 'module': c['module']}, r)
    if mods:
        pool.run_cases([{'module': m, 'timeout': 700} for m in mods], 'vf.props.c01_stdlib:run_case', timeout=800, batch=1, on_result=on_s, deadline=run.deadline + 300)
    return run.finish(
        rule='runnable, terminating, self-observing programs: seeds, every option trigger x context (printing a result list), guarded random modules, '
             'literal-rich programs, scope shapes (printing each reference), interface templates; each under the default options and a rotating selection '
             'of the documented-safe sets (all 13 safe switches off, each single-off, each single-on, a pairwise array over the 13, random subsets); '
             'self-hosting run of the repository test suite against the minified package; non-trivial/distinct = distinct (program, option set) whose '
             'output differs from the all-off rendering',
        assumptions=['reprs of functions / classes / objects in stdout are normalised (names of locals, addresses: documented reflective views)',
                     'generators avoid keyword use of self / positional-only names, reflective access to local names and annotations with side effects',
                     'a program is used only if two runs of the original agree'],
        min_nontrivial=200, required_counters=['programs_run', 'variants_run', 'history_events', 'self_hosting_tests_compared', 'cross_interpreter_variants_run'] + (['stdlib_unit_tests_compared'] if mods else []))


def replay(path):
    w = runner.load_replay(path)
    c = w['case']
    if c.get('shape') == 'stdlib-differential':
        from vf.props import c01_stdlib
        r = c01_stdlib.run_case({'module': c['module']})
        print(json.dumps(r, indent=1)[:3000])
        if r.get('violations'):
            print('VIOLATION property=%s replay=%s' % (PROP, path))
            return 1
        return 0
    if c.get('shape') == 'self-hosting':
        print('self-hosting is re-run by ./check C01')
        return main('quick', w.get('seed', 0))
    wit = w['witness']
    if c.get('layer') == 'cross':
        r = common.compat_single(c['interpreter'], {'op': 'run', 'src': c['src'], 'optsets': [['replay', wit['opts']]], 'case_timeout': 60})
        print(json.dumps(r, indent=1)[:4000])
        if r.get('violations') and not (static_mech(c['src'], wit['opts'], wit.get('out')) or static_object_mech(c['src'], wit['opts'])):
            print('VIOLATION property=%s replay=%s' % (PROP, path))
            return 1
        return 0
    r = run_case({'shape': c['shape'], 'src': c['src'], 'optsets': [(wit.get('optset', 'replay'), wit['opts'])]})
    print(json.dumps(r, indent=1)[:4000])
    if r.get('violations'):
        print('VIOLATION property=%s replay=%s' % (PROP, path))
        return 1
    return 0
