"""C03 - renaming preserves which binding every name refers to.

Oracle: (i) compile() of the output; (ii) O3's binding relation (bijection between P bindings and Q binding classes, free / global /
builtin references not captured, class-body fallback rule) with O2 validated against symtable on both texts; H-invariants at the
renamer hook are reported as auxiliary evidence.
"""
import base64
import os

from vf import common, options, pool, runner
from vf.gen import modgen, scopegen, seeds
from vf.props import nameeng

PROP = 'C03'
RENAME_SETS = [(1, 0, 0), (0, 1, 0), (0, 0, 1), (1, 1, 0), (1, 0, 1), (0, 1, 1), (1, 1, 1)]


def opt_variants(r, n):
    out = []
    for i in range(n):
        rl, rg, hl = RENAME_SETS[r.randrange(len(RENAME_SETS))]
        if r.random() < 0.35:
            rg = 1
        base = options.default() if r.random() < 0.4 else (options.all_off() if r.random() < 0.7 else options.random_set(r))
        base['rename_locals'], base['rename_globals'], base['hoist_literals'] = bool(rl), bool(rg), bool(hl)
        if r.random() < 0.15:
            base['preserve_locals'] = r.sample(['subject', 'A', 'same_', 'x', 'value', 'len', 'local_1', 'c0_'], 2)
        if r.random() < 0.15:
            base['preserve_globals'] = r.sample(['subject', 'A', 'B', 'same_', 'f1', 'C1'], 2)
        out.append(base)
    return out


def gen_cases(tier, seed):
    r = common.rng(seed, 'C03')
    cases = []
    if tier == 'quick':
        scope_cases = list(scopegen.stratified_cases(seed)) + list(scopegen.sampled_cases(seed, 600))
        nopt = 1
    else:
        scope_cases = list(scopegen.enumerate_cases(max_stmt_depth=2, expr_depth=(0, 1))) + list(scopegen.sampled_cases(seed, 20000))
        nopt = 1
    for c in scope_cases:
        for o in opt_variants(r, nopt):
            cases.append({'shape': c['shape'], 'src': c['src'], 'opts': o})
    for tag, s in seeds.all_seeds():
        for o in opt_variants(r, 4):
            cases.append({'shape': 'seed:' + tag, 'src': s, 'opts': o})
        # renaming next to the statement-rewriting transforms: every transform on, plus class-attribute annotation removal (off by default)
        for rg in (False, True):
            o = options.all_on()
            o['remove_class_attribute_annotations'] = True
            o['rename_globals'] = rg
            o['remove_asserts'] = o['remove_debug'] = False
            cases.append({'shape': 'seed:' + tag, 'src': s, 'opts': o})
    for i in range(120 if tier == "quick" else 1500):
        s, _ = modgen.generate(seed, 20000 + i, guarded=(i % 2 == 0), size=8 + (i % 3) * 6)
        for o in opt_variants(r, 2):
            cases.append({'shape': 'modgen', 'src': s, 'opts': o})
    files = list(common.corpus_files('real'))
    r.shuffle(files)
    for f in files[:12 if tier == 'quick' else 127]:
        for o in opt_variants(r, 1 if tier == 'quick' else 3):
            cases.append({'shape': 'corpus', 'file': f, 'src_b64': base64.b64encode(common.read_text(f)).decode(), 'opts': o})
    # name-pool exhaustion stress
    n = 1800 if tier == 'quick' else 2400
    o = options.all_off()
    o['rename_locals'] = True
    cases.append({'shape': 'exhaustion.locals', 'src': scopegen.exhaustion_case(n), 'opts': dict(o), 'timeout': 120})
    o2 = options.all_off()
    o2['rename_globals'] = True
    cases.append({'shape': 'exhaustion.globals', 'src': scopegen.exhaustion_case(n, as_globals=True), 'opts': o2, 'timeout': 120})
    for i, c in enumerate(cases):
        c['prop'] = PROP
        c.setdefault('timeout', 150 if c.get('shape') in ('modgen', 'corpus') or str(c.get('shape')).startswith('exhaustion') else 40)
        c['want_sample'] = i % 1500 == 0
    return cases


def main(tier, seed):
    run = runner.Run(PROP, tier, seed)
    cases = gen_cases(tier, seed)
    big = [c for c in cases if c['shape'].startswith(('exhaustion', 'corpus'))]
    medium = [c for c in cases if c['shape'].startswith('modgen')]
    small = [c for c in cases if not c['shape'].startswith(('exhaustion', 'corpus', 'modgen'))]

    def on(c, r):
        slim = {'shape': c['shape'], 'opts': c['opts'], 'file': c.get('file')}
        if r.get('status') == 'violation' or 'inconclusive' in r:
            slim['src'] = c.get('src')
            slim['src_b64'] = c.get('src_b64')
        if c['shape'].startswith('exhaustion') and r.get('status') == 'held':
            run.count('exhaustion_cases_held')
        run.cell('shape_class', c['shape'].split('|')[0].split(':')[0].split('.')[0])
        run.add(slim, r)
    exh = [c for c in big if c['shape'].startswith('exhaustion')]
    big = [c for c in big if not c['shape'].startswith('exhaustion')]
    pool.run_cases(exh, 'vf.props.nameeng:run_case', timeout=180, batch=1, on_result=on, deadline=run.deadline)
    pool.run_cases(small, 'vf.props.nameeng:run_case', timeout=60, batch=40, on_result=on, deadline=run.deadline)
    pool.run_cases(medium, 'vf.props.nameeng:run_case', timeout=180, batch=3, on_result=on, deadline=run.deadline)
    nameeng.foreign_layer(run, PROP, small, tier, per_version=350 if tier == 'quick' else 6000)
    pool.run_cases(big, 'vf.props.nameeng:run_case', timeout=180, batch=1, on_result=on, deadline=run.deadline)
    return run.finish(
        rule='scope shapes: exhaustive nestings of def / async def / class (depth <= 2) x expression scopes (lambda, 4 comprehension kinds) x 28 '
             'binding forms x bind level x 26 reference positions (quick: sample) + random deeper nestings with colliding names, seeds, random '
             'modules, stdlib files, name-pool exhaustion stress; a sample of the small cases again with the minifier running in 3.6 / 3.7 / 3.8 / 3.10 / 3.13 (thorough: all installed 3.x), output decided by the same matcher; options: every non-empty subset of {rename_locals, rename_globals, '
             'hoist_literals} over default / all-off / random bases with random preserve lists; non-trivial/distinct = distinct (source, option '
             'set) where at least one binding was really renamed or an alias introduced',
        assumptions=['vf/oracle/scopes.py implements the language reference scoping rules; it is cross-checked against symtable on every input '
                     'and output, disagreement makes the case inconclusive', 'PEP 695 type-parameter scopes are not modelled (inconclusive)'],
        min_nontrivial=200, required_counters=['matcher_runs', 'exhaustion_cases_held', 'foreign_outputs_compared'])


def replay(path):
    return nameeng.replay_case(path, PROP)
