"""C12 - minifying never runs code taken from the input.

Monitor: sys.addaudithook records every exec / compile / import / open / os.* / subprocess / socket / ctypes event
raised between entry and exit of minify() (after a warm-up call has triggered the package's own lazy imports).
Oracle: (1) every code object handed to exec/eval is a closed literal expression (no names, no nested code, opcode
whitelist; text parses to Constant/BinOp/UnaryOp only); (2) no import outside python_minifier.* / encodings.*;
(3) no open / process / socket / ctypes event; (4) no canary file, no canary token in any event argument.
"""
import ast
import base64
import dis
import json
import os
import shutil
import sys
import tempfile
import types

from vf import common, options, pool, runner
from vf.gen import strgen, foldgen, union

PROP = 'C12'
OK_OPS = {'RESUME', 'LOAD_CONST', 'RETURN_VALUE', 'RETURN_CONST', 'BINARY_OP', 'UNARY_NEGATIVE', 'UNARY_NOT', 'UNARY_INVERT',
          'CALL_INTRINSIC_1', 'NOP', 'BUILD_TUPLE', 'CACHE', 'UNARY_POSITIVE', 'BINARY_ADD', 'BINARY_SUBTRACT', 'BINARY_MULTIPLY',
          'COMPARE_OP', 'POP_TOP', 'PUSH_NULL', 'COPY', 'SWAP', 'TO_BOOL'}
ARTEFACT_NAMES = {'inf', 'nan', 'infj', 'nanj'}     # the package's own printing of non-finite numbers
# imported by the tokenizer / parser of the interpreter for its own purposes (\\N{...} escapes, codec lookup), never named by the input
INTERPRETER_INTERNAL_IMPORTS = ('unicodedata', 'stringprep', 'codecs', '_codecs', 'warnings', 'linecache', 'tokenize', 'token', 're', 'sre_compile', 'traceback')
PSEUDO_FILES = ('python_minifier.minify source', 'python_minifier.unparse output', 'FString candidate', 'folded expression',
                'python_minifier.f_string output', 'stdin')
ALLOWED_NODES = (ast.Expression, ast.BinOp, ast.UnaryOp, ast.Constant, ast.operator, ast.unaryop, ast.Load)

_state = {'installed': False, 'active': False, 'events': []}


def _site():
    f = sys._getframe(2)
    depth = 0
    while f is not None and depth < 12:
        fn = f.f_code.co_filename
        if 'python_minifier' in fn:
            return '%s:%s' % (os.path.basename(fn), f.f_code.co_name)
        f = f.f_back
        depth += 1
    return '?'


def _inside_import():
    """True when the event is raised while the import system is loading a module (importlib frames on the stack):
    such events belong to the root import, which is judged on its own (allowed: python_minifier.*, encodings.*)."""
    f = sys._getframe(2)
    depth = 0
    while f is not None and depth < 60:
        if f.f_code.co_filename.startswith('<frozen importlib'):
            return True
        f = f.f_back
        depth += 1
    return False


def _hook(event, args):
    if not _state['active']:
        return
    if event in ('exec', 'compile', 'import', 'open') or event.startswith(('os.', 'subprocess.', 'socket.', 'ctypes.', 'shutil.', 'urllib.', 'http.', 'ftplib.', 'smtplib.')):
        _state['active'] = False
        try:
            if _inside_import():
                _state['events'].append(('nested', event))
            elif event == 'exec':
                _state['events'].append(('exec', args[0], _site()))
            elif event == 'compile':
                src = args[0]
                _state['events'].append(('compile', src if isinstance(src, (str, bytes)) else None, str(args[1])[:80]))
            elif event == 'import':
                _state['events'].append(('import', str(args[0])))
            elif event == 'open':
                _state['events'].append(('open', str(args[0])[:200], str(args[1])))
            else:
                _state['events'].append((event, repr(args)[:200]))
        finally:
            _state['active'] = True


def _install():
    if _state['installed']:
        return
    sys.addaudithook(_hook)
    _state['installed'] = True
    import python_minifier as pm
    # warm-up: the package's own lazy imports happen here, outside the monitored window
    pm.minify("import os\nx = f'{1 + 2}' + 'a' + b'b'\nclass A(object):\n    def f(self, a: int = 1) -> int:\n        '''d'''\n        raise ValueError()\n", rename_globals=True)
    try:
        pm.minify("# -*- coding: latin-1 -*-\nx = 1\n".encode('latin-1'))
        pm.minify("x = '\\N{EM DASH}'\n")        # the parser itself imports unicodedata to decode \\N{...} escapes
    except Exception:
        pass


def check_code(code, text_hint=None):
    """returns list of problems for one executed code object"""
    problems = []
    if not isinstance(code, types.CodeType):
        return ['exec of a non-code object %r' % type(code)]
    names = set(code.co_names) - ARTEFACT_NAMES
    if names:
        problems.append('co_names=%r' % (sorted(names),))
    if code.co_varnames or code.co_freevars or code.co_cellvars:
        problems.append('has variables %r' % (code.co_varnames + code.co_freevars + code.co_cellvars,))
    for c in code.co_consts:
        if isinstance(c, types.CodeType):
            problems.append('nested code object %s' % c.co_name)
    for ins in dis.get_instructions(code):
        if ins.opname not in OK_OPS and not (ins.opname in ('LOAD_NAME', 'LOAD_GLOBAL') and ins.argval in ARTEFACT_NAMES):
            problems.append('opcode %s %r' % (ins.opname, ins.argval))
            break
    return problems


def check_text(text):
    if isinstance(text, bytes):
        try:
            text = text.decode('utf-8')
        except Exception:
            return ['undecodable compile text']
    try:
        t = ast.parse(text.strip(), mode='eval')
    except SyntaxError:
        return None     # not an expression: a module being parsed (ast.parse of input / output), not evaluated text
    for n in ast.walk(t):
        if isinstance(n, ALLOWED_NODES):
            continue
        if isinstance(n, ast.Name) and n.id in ARTEFACT_NAMES:
            continue
        return ['evaluated text contains %s: %r' % (type(n).__name__, text[:120])]
    return []


def run_case(case):
    import python_minifier as pm
    cdir = case['canary_dir']
    if cdir not in sys.path:
        sys.path.insert(0, cdir)
    _install()
    if 'src' in case:
        src = case['src']
    else:
        src = base64.b64decode(case['src_b64'])
    kw = common.opts_to_kwargs(case['opts'], pm)
    canary = os.path.join(cdir, 'touched')
    del _state['events'][:]
    outcome = 'returned'
    _state['active'] = True
    try:
        pm.minify(src, **kw)
    except BaseException as e:
        outcome = type(e).__name__
    finally:
        _state['active'] = False
    events = list(_state['events'])
    res = {'status': 'held', 'violations': [], 'nontrivial': [], 'counters': {'minify_calls': 1, 'outcome_' + outcome: 1},
           'matrix': {'evaluations_by_site': {}, 'imports_seen': {}}}
    last_compile = None
    tokens = ('vf_canary', 'touched')
    for ev in events:
        kind = ev[0]
        if kind == 'nested':
            res['counters']['events_inside_codec_import'] = res['counters'].get('events_inside_codec_import', 0) + 1
            continue
        if kind == 'compile':
            last_compile = ev[1]
            if ev[1] is not None and not (isinstance(ev[2], str) and ev[2].startswith(('python_minifier', 'FString candidate', 'folded expression', 'stdin'))) :
                pass
        elif kind == 'exec':
            code, site = ev[1], ev[2]
            res['counters']['exec_events'] = res['counters'].get('exec_events', 0) + 1
            res['matrix']['evaluations_by_site'][site] = res['matrix']['evaluations_by_site'].get(site, 0) + 1
            probs = check_code(code)
            text = last_compile if isinstance(last_compile, (str, bytes)) else None
            if text is not None:
                tp = check_text(text)
                if tp:
                    probs += tp
                t = text if isinstance(text, str) else text.decode('latin-1')
                if len(res['nontrivial']) < 400:
                    res['nontrivial'].append(site + '|' + common.sha(t))
            if probs:
                res['violations'].append({'mech': None, 'detail': 'code executed at %s is not a closed literal expression: %s; text=%r' % (
                    site, '; '.join(probs)[:300], (text or '')[:160]), 'witness': {'site': site}})
        elif kind == 'import':
            name = ev[1]
            res['matrix']['imports_seen'][name.split('.')[0]] = res['matrix']['imports_seen'].get(name.split('.')[0], 0) + 1
            if not (name.startswith('python_minifier') or name.startswith('encodings') or name in INTERPRETER_INTERNAL_IMPORTS):
                res['violations'].append({'mech': None, 'detail': 'import of %r during minify()' % name, 'witness': {}})
        elif kind == 'open' and ev[1] in PSEUDO_FILES and ev[2] in ('r', 'rb'):
            # the interpreter looking for the source line of a SyntaxError under the pseudo file name the package passed to compile()
            res['counters']['open_of_pseudo_filename_for_error_text'] = res['counters'].get('open_of_pseudo_filename_for_error_text', 0) + 1
        elif kind == 'open':
            res['violations'].append({'mech': None, 'detail': 'open(%r, %r) during minify()' % (ev[1], ev[2]), 'witness': {}})
        else:
            res['violations'].append({'mech': None, 'detail': 'audit event %s %s during minify()' % (kind, ev[1]), 'witness': {}})
        if kind not in ('exec', 'compile') and any(tok in repr(ev[1:]) for tok in tokens) and not (kind == 'import' and ev[1].startswith('encodings.')):
            res['violations'].append({'mech': None, 'detail': 'canary token in %s event: %r' % (kind, ev[1:]), 'witness': {}})
    if os.path.exists(canary):
        try:
            os.unlink(canary)
        except OSError:
            pass
        res['violations'].append({'mech': None, 'detail': 'canary file was created while minifying', 'witness': {}})
    if res['violations']:
        res['status'] = 'violation'
        res['violations'] = res['violations'][:5]
    elif case.get('want_sample'):
        res['sample'] = {'shape': case['shape'], 'src': (case.get('src') or '')[:200], 'exec_events': res['counters'].get('exec_events', 0),
                         'sites': res['matrix']['evaluations_by_site']}
    return res


def gen_cases(tier, seed, cdir):
    canary = os.path.join(cdir, 'touched')
    cases = []
    r = common.rng(seed, 'C12')
    sg = strgen.cases(seed, canary, 'vf_canary_mod', limit=None if tier == 'thorough' else 1400)
    optsets = [options.default(), options.all_off(), options.all_on(), options.single_on('hoist_literals'), options.single_on('constant_folding')]
    for i, c in enumerate(sg):
        for o in (optsets if tier == 'thorough' else [optsets[i % len(optsets)], optsets[0]]):
            d = dict(c)
            d['opts'] = o
            cases.append(d)
    for i, c in enumerate(strgen.random_cases(seed, canary, 'vf_canary_mod', 400 if tier == 'quick' else 12000, per_payload=2 if tier == 'quick' else 3)):
        d = dict(c)
        d['opts'] = optsets[i % len(optsets)]
        cases.append(d)
    rg = dict(options.default(), rename_globals=True)
    for c in strgen.code_canary_cases(canary, 'vf_canary_mod'):
        for o in (options.default(), options.all_on(), rg, dict(options.all_on(), rename_globals=True)):
            d = dict(c)
            d['opts'] = o
            cases.append(d)
    for c in strgen.cookie_cases('vf_canary_mod'):
        c['opts'] = options.default()
        cases.append(c)
    fl = list(foldgen.neighbour_cases()) + list(foldgen.random_cases(seed, 600 if tier == 'quick' else 6000))
    g = list(foldgen.grid())
    r.shuffle(g)
    fl += g[:800 if tier == 'quick' else 8000]
    for c in fl:
        cases.append({'shape': 'fold.' + c['shape'], 'src': c['src'], 'opts': options.default()})
    for c in union.sources(tier, seed, n_mod=80 if tier == 'quick' else 800, n_expr=300 if tier == 'quick' else 3000):
        d = {'shape': 'union.' + c['shape'].split(':')[0], 'opts': r.choice(optsets)}
        if 'src' in c:
            d['src'] = c['src']
        else:
            d['src_b64'] = c['src_b64']
        cases.append(d)
    for i, c in enumerate(cases):
        c['canary_dir'] = cdir
        c['want_sample'] = (i % 701 == 0)
    return cases


def main(tier, seed):
    run = runner.Run(PROP, tier, seed)
    cdir = tempfile.mkdtemp(prefix='vf_canary_')
    try:
        with open(os.path.join(cdir, 'vf_canary_mod.py'), 'w') as f:
            f.write("import os\nopen(os.path.join(os.path.dirname(__file__), 'touched'), 'w').close()\n")
        cases = gen_cases(tier, seed, cdir)

        def on(c, r):
            slim = {'shape': c['shape'], 'opts': c['opts']}
            if r.get('status') == 'violation' or 'inconclusive' in r:
                slim['src'] = c.get('src')
                slim['src_b64'] = c.get('src_b64')
            run.add(slim, r)
        pool.run_cases(cases, 'vf.props.C12:run_case', timeout=30, batch=40, on_result=on, deadline=run.deadline)
        if os.path.exists(os.path.join(cdir, 'touched')):
            run.violation({'shape': 'whole-run'}, {'mech': None, 'detail': 'canary file exists after the run', 'witness': {}})
    finally:
        shutil.rmtree(cdir, ignore_errors=True)
    sites = run.matrix.get('evaluations_by_site', {})
    need = ['ministring.py:__str__', 'f_string.py:__str__', 'constant_folding.py:safe_eval']
    missing = [s for s in need if not any(k == s for k in sites)]
    for s in need:
        if s not in missing:
            run.count('site_reached:' + s)
    return run.finish(
        rule='break-out payloads (each quote style, backslashes, newlines, braces, NUL, \\N{..}) as the value of str/bytes literals in 25 '
             'positions (plain, docstring, f-string text, nested 1-3 deep in replacement fields, format spec, dict key, fold neighbour, '
             'match value, annotation, __slots__, __all__), coding cookies naming arbitrary modules, literal arithmetic next to names and '
             'calls, plus the union workload; non-trivial/distinct = distinct (evaluation site, evaluated text) pairs observed through the '
             'exec audit event',
        assumptions=['sys.addaudithook sees every exec/eval/compile/import/open (CPython guarantee)',
                     'bare names inf/nan in evaluated text are the package\'s own printing of non-finite numbers, not input'],
        min_nontrivial=50, required_counters=['exec_events', 'minify_calls'] + ['site_reached:' + s for s in need])


def replay(path):
    w = runner.load_replay(path)
    c = w['case']
    cdir = tempfile.mkdtemp(prefix='vf_canary_')
    try:
        with open(os.path.join(cdir, 'vf_canary_mod.py'), 'w') as f:
            f.write("import os\nopen(os.path.join(os.path.dirname(__file__), 'touched'), 'w').close()\n")
        case = {'shape': c['shape'], 'opts': c['opts'], 'canary_dir': cdir}
        if c.get('src') is not None:
            case['src'] = c['src']
        else:
            case['src_b64'] = c['src_b64']
        r = run_case(case)
    finally:
        shutil.rmtree(cdir, ignore_errors=True)
    print(json.dumps(r, indent=1, default=repr)[:3000])
    if r.get('violations'):
        print('VIOLATION property=%s replay=%s' % (PROP, path))
        return 1
    return 0
