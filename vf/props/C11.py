"""C11 - output depends only on source, options and interpreter version.

Reference = output in a fresh process with PYTHONHASHSEED=0. Monitors:
 (a) hash-seed sweep in fresh processes            (b) call histories in one long-lived process re-using caller-owned objects
 (c) concurrent threads with yield injection (sys.monitoring LINE events inside python_minifier call time.sleep(0))
 (d) argument purity at the API boundary (arguments compared with deep copies taken before the call)
"""
import base64
import copy
import hashlib
import json
import os
import re
import sys
import threading
import time

from vf import common, options, pool, runner
from vf.gen import modgen, seeds

PROP = 'C11'


def _kw(pm, item, fresh=True, shared=None):
    if item.get('bare'):
        return {}       # minify(source) with nothing else: the defaults in the signature (one shared options object) are used
    o = dict(item['opts'])
    pl = o.pop('preserve_locals', None)
    pg = o.pop('preserve_globals', None)
    kw = common.opts_to_kwargs(o, pm)
    if fresh or shared is None:
        if pl is not None:
            kw['preserve_locals'] = list(pl) if isinstance(pl, list) else pl
        if pg is not None:
            kw['preserve_globals'] = list(pg) if isinstance(pg, list) else pg
    else:
        # caller-owned objects re-used between calls
        if pl is not None:
            kw['preserve_locals'] = shared.setdefault(('pl', json.dumps(pl)), list(pl) if isinstance(pl, list) else pl)
        if pg is not None:
            kw['preserve_globals'] = shared.setdefault(('pg', json.dumps(pg)), list(pg) if isinstance(pg, list) else pg)
        if 'remove_annotations' in kw:
            key = ('ra', repr(kw['remove_annotations']))
            kw['remove_annotations'] = shared.setdefault(key, kw['remove_annotations'])
    return kw


def _src(item):
    s = base64.b64decode(item['src_b64'])
    if item.get('as_text'):
        return s.decode('utf-8')
    return s


def _h(out):
    return hashlib.sha256(out.encode('utf-8', 'surrogatepass')).hexdigest()[:20]


def _snapshot(kw, src):
    snap = {}
    for k, v in kw.items():
        if k == 'remove_annotations' and not isinstance(v, bool):
            snap[k] = dict(vars(v))
        else:
            snap[k] = copy.deepcopy(v)
    snap['__source__'] = src
    return snap


def _purity_diff(kw, src, snap):
    diffs = []
    for k, v in kw.items():
        cur = dict(vars(v)) if (k == 'remove_annotations' and not isinstance(v, bool)) else v
        if cur != snap[k]:
            diffs.append('%s: %r -> %r' % (k, snap[k], cur))
    if src != snap['__source__']:
        diffs.append('source changed')
    return diffs


def run_ref(case):
    """fresh-process reference (the pool runs this worker one-shot)."""
    import python_minifier as pm
    item = case['item']
    try:
        out = pm.minify(_src(item), **_kw(pm, item))
    except Exception as e:
        return {'status': 'held', 'ref': 'EXC:' + type(e).__name__, 'hashseed': os.environ.get('PYTHONHASHSEED')}
    return {'status': 'held', 'ref': _h(out), 'len': len(out), 'hashseed': os.environ.get('PYTHONHASHSEED')}


def _call(pm, item, fresh, shared):
    kw = _kw(pm, item, fresh=fresh, shared=shared)
    src = _src(item)
    snap = _snapshot(kw, src)
    try:
        out = _h(pm.minify(src, **kw))
    except Exception as e:
        out = 'EXC:' + type(e).__name__
    return out, _purity_diff(kw, src, snap)


def run_history(case):
    """(b)+(d): one process, a random sequence of calls with repeats, caller-owned objects re-used."""
    import python_minifier as pm
    items = case['items']
    r = common.rng(case['seed'], 'history')
    shared = {}
    res = {'status': 'held', 'violations': [], 'nontrivial': [], 'counters': {'history_calls': 0, 'purity_checks': 0}}
    seq = [r.randrange(len(items)) for _ in range(case['length'])]
    if case.get('sequence'):
        seq = list(case['sequence'])
    prefix = []
    for step, idx in enumerate(seq):
        item = items[idx]
        out, pdiff = _call(pm, item, fresh=False, shared=shared)
        prefix.append(idx)
        res['counters']['history_calls'] += 1
        res['counters']['purity_checks'] += 1
        res['nontrivial'].append('h%d:%s' % (case['seed'], hashlib.sha1(json.dumps(prefix[-6:]).encode()).hexdigest()[:10]))
        if pdiff:
            res['violations'].append({'mech': 'C11.preserve_lists.mutated' if all(d.startswith('preserve_') for d in pdiff) else None,
                                      'detail': 'caller-owned argument changed by minify(): %s' % '; '.join(pdiff)[:300],
                                      'witness': {'item': item['name'], 'opts': item['opts'], 'step': step}})
        if out != item['ref']:
            out2, _ = _call(pm, item, fresh=True, shared=None)
            mech = None
            if out2 == item['ref']:
                mech = 'C11.preserve_lists.mutated' if (item['opts'].get('preserve_globals') is not None or item['opts'].get('preserve_locals') is not None) else None
                why = 'differs only when caller-owned objects are re-used'
            else:
                why = 'differs even with fresh arguments (state carried inside the package)'
            res['violations'].append({'mech': mech, 'detail': 'history step %d (%s): result %s != fresh-process reference %s; %s; previous calls %r' % (
                step, item['name'], out, item['ref'], why, [items[i]['name'] for i in prefix[-4:-1]]),
                'witness': {'item': item['name'], 'opts': item['opts'], 'sequence': [items[i]['name'] for i in prefix]}})
            if len(res['violations']) > 6:
                break
    if res['violations']:
        res['status'] = 'violation'
    else:
        res['sample'] = {'history': [items[i]['name'] for i in seq[:8]], 'all_equal_reference': True}
    return res


def run_threads(case):
    """(c): N threads minify concurrently; LINE events inside python_minifier yield the GIL with seeded probability."""
    import random
    import python_minifier as pm
    items = case['items']
    nthreads = case['threads']
    res = {'status': 'held', 'violations': [], 'nontrivial': [], 'counters': {}}
    sys.setswitchinterval(1e-5)
    mon = getattr(sys, 'monitoring', None)
    state = {'last': None, 'switches': 0, 'events': 0, 'sigs': set()}
    rnd = random.Random(case['seed'])
    slock = threading.Lock()
    TOOL = 3
    if mon is not None:
        try:
            mon.use_tool_id(TOOL, 'vf-yield')
        except ValueError:
            pass

        def on_line(code, line):
            if 'python_minifier' not in code.co_filename:
                return mon.DISABLE
            tid = threading.get_ident()
            with slock:
                state['events'] += 1
                last = state['last']
                if last is not None and last[0] != tid:
                    state['switches'] += 1
                    if len(state['sigs']) < 5000:
                        state['sigs'].add((last[1], code.co_name))
                state['last'] = (tid, code.co_name)
                doit = rnd.random() < case.get('yield_p', 0.02)
            if doit:
                time.sleep(0)
        mon.register_callback(TOOL, mon.events.LINE, on_line)
        mon.set_events(TOOL, mon.events.LINE)
    results = {}
    errors = []

    def work(tidx):
        try:
            r2 = random.Random(case['seed'] * 1000 + tidx)
            for _ in range(case['per_thread']):
                idx = r2.randrange(len(items))
                out, pdiff = _call(pm, items[idx], fresh=True, shared=None)
                results.setdefault(idx, []).append((tidx, out))
        except BaseException as e:
            errors.append(repr(e))
    ths = [threading.Thread(target=work, args=(i,)) for i in range(nthreads)]
    for t in ths:
        t.start()
    for t in ths:
        t.join()
    if mon is not None:
        mon.set_events(TOOL, 0)
        mon.free_tool_id(TOOL)
    ncalls = 0
    for idx, outs in results.items():
        for tidx, out in outs:
            ncalls += 1
            if out != items[idx]['ref']:
                res['violations'].append({'mech': None, 'detail': 'thread %d: %s gave %s != reference %s with %d threads minifying concurrently' % (
                    tidx, items[idx]['name'], out, items[idx]['ref'], nthreads),
                    'witness': {'item': items[idx]['name'], 'opts': items[idx]['opts']}})
    for e in errors:
        res['violations'].append({'mech': None, 'detail': 'thread raised ' + e, 'witness': {}})
    res['counters'] = {'thread_calls': ncalls, 'observed_context_switches_inside_minifier': state['switches'],
                       'line_events': state['events']}
    res['nontrivial'] = ['sw:%s>%s' % s for s in list(state['sigs'])[:3000]]
    if res['violations']:
        res['status'] = 'violation'
        res['violations'] = res['violations'][:6]
    else:
        res['sample'] = {'threads': nthreads, 'calls': ncalls, 'switches_inside_minifier': state['switches'],
                         'distinct_switch_signatures': len(state['sigs'])}
    return res


def run_seed(case):
    """(a): same call under another PYTHONHASHSEED (the worker process was started with it)."""
    import python_minifier as pm
    item = case['item']
    out, pdiff = _call(pm, item, fresh=True, shared=None)
    res = {'status': 'held', 'violations': [], 'nontrivial': ['%s@%s' % (item['name'], os.environ.get('PYTHONHASHSEED'))],
           'counters': {'seed_runs': 1}}
    if out != item['ref']:
        res['status'] = 'violation'
        if case.get('variant'):
            # interpreter started with another flag: `-S` leaves the site builtins (exit, quit, help, copyright, credits, license) out of dir(builtins)
            src = _src(item)
            text = src.decode('utf-8', 'replace') if isinstance(src, bytes) else src
            mech = 'C11.builtins.site_names' if case['variant'] == '-S' and re.search(r'\b(exit|quit|help|copyright|credits|license)\b', text) else None
            res['violations'].append({'mech': mech, 'detail': '%s: an interpreter started with %s gives %s, a plain one gives %s' % (item['name'], case['variant'], out, item['ref']),
                                      'witness': {'item': item['name'], 'opts': item['opts']}})
        else:
            res['violations'].append({'mech': None, 'detail': '%s: PYTHONHASHSEED=%s gives %s, seed 0 gives %s' % (
                item['name'], os.environ.get('PYTHONHASHSEED'), out, item['ref']), 'witness': {'item': item['name'], 'opts': item['opts']}})
    if case.get('variant'):
        res['counters'] = {'interpreter_flag_runs': 1}
        res['nontrivial'] = ['%s@%s' % (item['name'], case['variant'])]
    return res


def build_items(tier, seed):
    r = common.rng(seed, 'C11-items')
    items = []
    srcs = []
    for tag, s in seeds.all_seeds():
        if tag.startswith(('d8', 'd12')):
            continue
        srcs.append(('seed:' + tag, s.encode('utf-8')))
    files = [f for f in common.corpus_files('real') if os.path.getsize(f) < 9000]
    r.shuffle(files)
    for f in files[:(25 if tier == 'quick' else 70)]:
        srcs.append(('corpus:' + os.path.basename(f), common.read_text(f)))
    for i in range(40 if tier == 'quick' else 150):
        s, _ = modgen.generate(seed, 5000 + i, size=10)
        srcs.append(('modgen:%d' % i, s.encode('utf-8')))
    optsets = [o for _, o in options.standard_sets()]
    for name, b in srcs:
        for j in range(2):
            o = dict(r.choice(optsets)) if r.random() < 0.5 else options.random_set(r, 0.6)
            k = r.random()
            if name.startswith('seed:global_multi') or name.startswith('seed:nonlocal_multi') or name.startswith('seed:site_builtins'):
                o['rename_globals'] = True
                o['rename_locals'] = True
            if k < 0.35:
                o['preserve_globals'] = r.choice([['alpha', 'helper'], ['A'], [], ['public_one', 'CONFIG', 'Widget']])
                o['rename_globals'] = True
            if k > 0.2 and k < 0.5:
                o['preserve_locals'] = r.choice([['a', 'value'], ['self'], [], ['x', 'data', 'item']])
                o['rename_locals'] = True
            items.append({'name': '%s#%d' % (name, j), 'src_b64': base64.b64encode(b).decode('ascii'), 'opts': o,
                          'as_text': r.random() < 0.5 and _is_utf8(b)})
        if name.startswith('seed:'):
            items.append({'name': '%s#bare' % name, 'src_b64': base64.b64encode(b).decode('ascii'), 'opts': options.default(), 'bare': True, 'as_text': _is_utf8(b)})
    return items


def _is_utf8(b):
    try:
        b.decode('utf-8')
        return True
    except Exception:
        return False


def main(tier, seed):
    run = runner.Run(PROP, tier, seed)
    items = build_items(tier, seed)
    # ---- references: fresh process per item, PYTHONHASHSEED=0
    refs = {}

    def on_ref(c, r):
        if r.get('status') == 'held':
            refs[c['item']['name']] = r['ref']
            run.count('reference_runs_fresh_process')
        else:
            run.add({'layer': 'ref', 'item': c['item']['name']}, r)
    pool.run_cases([{'item': it, 'timeout': 55} for it in items], 'vf.props.C11:run_ref', timeout=60, batch=1, on_result=on_ref,
                   env=common.clean_env(hashseed='0'), oneshot=True)
    items = [dict(it, ref=refs[it['name']]) for it in items if it['name'] in refs]
    run.notes.append('t_ref=%.1f' % (time.time() - run.t0))
    # ---- (a) seed sweep
    seed_values = [1, 2, 3, 4242] if tier == 'quick' else [1, 2, 3, 5, 7, 11, 42, 4242, 65535, 123456789, 2 ** 31 - 1, 99, 1000, 31337, 777, 2024]
    rs = common.rng(seed, 'C11-seeds')
    seed_values += [rs.randrange(1, 2 ** 32 - 1) for _ in range(2 if tier == 'quick' else 16)]
    for sv in seed_values:
        def on_seed(c, r, sv=sv):
            run.add({'layer': 'seed', 'hashseed': sv, 'item': c['item']['name'], 'opts': c['item']['opts']}, r)
        sub = items if tier == 'thorough' else [it for i, it in enumerate(items) if (i + sv) % 2 == 0]
        pool.run_cases([{'item': it, 'timeout': 55} for it in sub], 'vf.props.C11:run_seed', timeout=60, batch=4, on_result=on_seed,
                       env=common.clean_env(hashseed=str(sv)))
        run.count('hash_seeds_swept')
    run.notes.append('t_seed=%.1f' % (time.time() - run.t0))
    # ---- (a3) the same call in interpreters started with other flags (no site module, -OO, isolated-ish): the documentation promises nothing about them,
    # the property says "source, options and interpreter version"
    for flag in ('-S', '-OO', '-s'):
        def on_flag(c, r, flag=flag):
            run.add({'layer': 'flag', 'flag': flag, 'item': c['item']['name'], 'opts': c['item']['opts']}, r)
        sub = items if tier == 'thorough' else [it for i, it in enumerate(items) if i % 2 == 0 or it['name'].startswith('seed:site_builtins')]
        pool.run_cases([{'item': it, 'variant': flag, 'timeout': 55} for it in sub], 'vf.props.C11:run_seed', timeout=60, batch=4, on_result=on_flag,
                       env=common.clean_env(hashseed='0'), cmd=[common.VENV_PY, flag, '-m', 'vf.worker', 'vf.props.C11:run_seed'])
    run.notes.append('t_flags=%.1f' % (time.time() - run.t0))
    # ---- (a2) the same sweep with the minifier running in the other interpreters (dict and set order depend on the hash seed below 3.7)
    cross_items = [it for it in items if it['as_text'] or _is_utf8(base64.b64decode(it['src_b64']))]
    forced = [it for it in cross_items if any(k in it['name'] for k in ('fstring_three_levels', 'fstring_plain', 'annotations', 'invalid_escape', 'site_builtins'))]
    cross_items = forced + [it for it in cross_items[::(3 if tier == 'quick' else 1)] if it not in forced]
    outs = {}
    for version, py in common.interpreters():
        if version == '3.12-venv' or run.timed_out():
            continue
        if tier == 'quick' and version not in ('2.7.18', '3.6.15', '3.7.16', '3.10.13', '3.13.0'):
            continue
        for sv in ([0, 1, 2, 4242] if tier == 'quick' else [0, 1, 2, 3, 5, 42, 4242, 31337]):
            ops = [{'op': 'minify', 'src': base64.b64decode(it['src_b64']).decode('utf-8'), 'opts': it['opts'], 'case_timeout': 40, 'name': it['name']} for it in cross_items]

            def on_x(o, r, version=version, sv=sv):
                if r.get('status') != 'ok':
                    return
                key = (version, o['name'])
                h = _h(r['out'])
                run.count('cross_interpreter_seed_runs')
                if key not in outs:
                    outs[key] = (sv, h)
                    run.nontrivial.add('xseed|%s|%s' % (version, o['name']))
                    run.cell('cross_interpreter_seed_sweep', version)
                elif outs[key][1] != h:
                    run.add({'layer': 'cross-seed', 'interpreter': version, 'item': o['name'], 'opts': o['opts'], 'src': o['src'], 'hashseeds': [outs[key][0], sv]},
                            {'status': 'violation', 'violations': [{'mech': None, 'detail': '%s: %s: PYTHONHASHSEED=%s and PYTHONHASHSEED=%s give different outputs' % (
                                version, o['name'], outs[key][0], sv), 'witness': {'out': r['out'][:600]}}]})
            env = common.clean_env(hashseed=str(sv))
            env['PYTHONPATH'] = common.REPO_SRC
            pool.run_cases(ops, None, cmd=[py, '-W', 'ignore', os.path.join(common.VERIF, 'vf', 'compat_worker.py')], env=env, timeout=60, batch=10, on_result=on_x,
                           deadline=run.deadline, nworkers=6)
    # the same items, one fresh process each (hash seed 0): what an earlier call in the same worker process left behind would show as a difference
    for version, py in common.interpreters():
        if version == '3.12-venv' or run.timed_out():
            continue
        if tier == 'quick' and version not in ('2.7.18', '3.6.15', '3.10.13'):
            continue
        fresh_items = [it for it in cross_items if it['name'].startswith('seed:')][:(40 if tier == 'quick' else 400)]
        ops = [{'op': 'minify', 'src': base64.b64decode(it['src_b64']).decode('utf-8'), 'opts': it['opts'], 'case_timeout': 40, 'name': it['name']} for it in fresh_items]

        def on_f(o, r, version=version):
            if r.get('status') != 'ok':
                return
            key = (version, o['name'])
            run.count('cross_interpreter_fresh_process_runs')
            if key in outs and outs[key][1] != _h(r['out']):
                run.add({'layer': 'cross-fresh', 'interpreter': version, 'item': o['name'], 'opts': o['opts'], 'src': o['src']},
                        {'status': 'violation', 'violations': [{'mech': None, 'detail': '%s: %s: a fresh process and a process that had minified other modules before give different outputs' % (version, o['name']),
                                                                'witness': {'out': r['out'][:600]}}]})
        env = common.clean_env(hashseed='0')
        env['PYTHONPATH'] = common.REPO_SRC
        pool.run_cases(ops, None, cmd=[py, '-W', 'ignore', os.path.join(common.VERIF, 'vf', 'compat_worker.py')], env=env, timeout=60, batch=1, on_result=on_f,
                       deadline=run.deadline, nworkers=8, oneshot=True)
    run.notes.append('t_xseed=%.1f' % (time.time() - run.t0))
    # ---- (b)+(d) histories
    nh = 24 if tier == 'quick' else 160
    hcases = []
    for h in range(nh):
        rr = common.rng(seed, 'C11-h', h)
        sub = rr.sample(items, min(len(items), 12))
        hcases.append({'seed': seed * 100000 + h, 'items': sub, 'length': 40 if tier == 'quick' else 80, 'timeout': 280})

    # designed histories: a module that could leave something behind, then modules that would pick it up, all through the bare call and through options
    by_name = dict((it['name'], it) for it in items)
    designed = [['seed:module_reads_its_annotations', 'seed:annotated_module_after_annotations_reader', 'seed:idiom_dataclass_and_namedtuple'],
                ['seed:fstring_three_levels_dict', 'seed:fstring_plain_dict'],
                ['seed:global_multi_new_name_equals_old', 'seed:nonlocal_multi_new_name_equals_old', 'seed:site_builtins_used'],
                ['seed:invalid_escape_sequence', 'seed:fstring_plain_dict', 'seed:module_reads_its_annotations']]
    for dn, names in enumerate(designed):
        for suffix in ('#bare', '#0', '#1'):
            sub = [by_name[n + suffix] for n in names if n + suffix in by_name]
            if len(sub) >= 2:
                hcases.append({'seed': seed * 100000 + 90000 + dn * 10 + len(suffix), 'items': sub, 'length': 0, 'sequence': list(range(len(sub))) * 2 + list(reversed(range(len(sub)))), 'timeout': 280})

    def on_h(c, r):
        run.add({'layer': 'history', 'seed': c['seed'], 'items': [i['name'] for i in c['items']]}, r)
    pool.run_cases(hcases, 'vf.props.C11:run_history', timeout=300, batch=1, on_result=on_h)
    run.notes.append('t_hist=%.1f' % (time.time() - run.t0))
    # ---- (c) threads
    nt = 8 if tier == 'quick' else 64
    tcases = []
    small = [it for it in items if len(it['src_b64']) < (2500 if tier == 'quick' else 6000)]
    for t in range(nt):
        rr = common.rng(seed, 'C11-t', t)
        sub = rr.sample(small, min(len(small), 8))
        tcases.append({'seed': seed * 1000 + t, 'items': sub, 'threads': rr.choice([4, 8] if tier == 'quick' else [4, 8, 16]), 'per_thread': 2 if tier == 'quick' else 3,
                       'yield_p': rr.choice([0.005, 0.02, 0.1]), 'timeout': 580})

    def on_t(c, r):
        run.add({'layer': 'threads', 'seed': c['seed'], 'threads': c['threads'], 'items': [i['name'] for i in c['items']]}, r)
    pool.run_cases(tcases, 'vf.props.C11:run_threads', timeout=600, batch=1, on_result=on_t, nworkers=8 if tier == 'quick' else 16)
    run.notes.append('t_threads=%.1f' % (time.time() - run.t0))
    return run.finish(
        rule='(source, options) items from seeds, the pinned corpus and random modules, with preserve lists and annotation option '
             'objects; reference = fresh process, PYTHONHASHSEED=0; (a) other hash seeds - also with the minifier running in 2.7 / 3.6 / 3.7 / 3.10 / 3.13 (thorough: all) under several PYTHONHASHSEED values, (b) random call histories with caller-owned '
             'objects re-used, (c) 4-16 threads with LINE-event yield injection inside python_minifier, (d) argument deep-copy '
             'comparison on every call; non-trivial/distinct = distinct (item, seed) + distinct history prefixes + distinct '
             'observed (function -> function) thread-switch signatures inside the minifier',
        assumptions=['sha256 of the returned text stands for the text', 'LINE-event callbacks may yield the GIL (time.sleep(0))'],
        min_nontrivial=100,
        required_counters=['reference_runs_fresh_process', 'history_calls', 'thread_calls', 'seed_runs', 'cross_interpreter_seed_runs', 'interpreter_flag_runs',
                           'observed_context_switches_inside_minifier'])


def replay(path):
    w = runner.load_replay(path)
    print(json.dumps(w, indent=1)[:3000])
    print('replay for C11 re-runs the whole layer: ./check C11 --tier %s with VERIF_SEED=%s' % (w.get('tier'), w.get('seed')))
    return main(w.get('tier', 'quick'), w.get('seed', 0))
