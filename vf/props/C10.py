"""C10 - names the user asks to preserve are preserved.

Oracle: from O3's pairing: every occurrence whose input binding is function-scope with a name in preserve_locals, or module-scope with a name in
preserve_globals / a literal __all__ / the awslambda entrypoint, is spelled identically in the output; the result is still alpha-equivalent
(C03's relation), i.e. preserving breaks nothing else. Also the CLI spelling (--preserve-locals a,b repeated) and list re-use between calls.
"""
import ast
import base64
import json

from vf import common, options, pool, runner
from vf.gen import modgen, scopegen, seeds
from vf.oracle import matcher, scopes
from vf.props import nameeng

PROP = 'C10'

ALL_FORMS = [
    "__all__ = ['{a}', '{b}']\n",
    "__all__: list = ['{a}']\n__all__ += ['{b}']\n",
    "__all__ = []\n__all__ += ['{a}', '{b}']\n",
    "__all__ = ['{a}']\n__all__ = ['{a}', '{b}']\n",
    "__all__ = ['{a}', '{b}', 'not_defined_anywhere']\n",
    "if len('x') == 1:\n    __all__ = ['{a}', '{b}']\nelse:\n    __all__ = []\n",
    "try:\n    __all__ = ['{a}']\n    __all__ += ['{b}']\nexcept NameError:\n    pass\n",
    "try:\n    import vf_no_such_module_for_all\nexcept ImportError:\n    __all__ = ['{a}', '{b}']\n",
    "try:\n    __all__ = ['{a}']\nexcept NameError:\n    pass\nelse:\n    __all__ += ['{b}']\nfinally:\n    pass\n",
    "match 1:\n    case 1:\n        __all__ = ['{a}', '{b}']\n    case _:\n        __all__ = []\n",
    "with open('/dev/null') as all_handle:\n    __all__ = ['{a}', '{b}']\n",
    "for all_index in range(1):\n    __all__ = ['{a}', '{b}']\n",
    "__all__ = ('{a}', '{b}')\n",
    "__all__ = '{a}', '{b}'\n",
    "import sys\nif sys.version_info >= (3, 0):\n    __all__ = ('{a}',)\n    __all__ += ('{b}',)\n",
]


def bound_names(src):
    try:
        m = scopes.resolve(ast.parse(src))
    except Exception:
        return [], []
    mod = sorted(n for n in m.module.bound if not n.startswith('__'))
    loc = sorted(set(n for s in m.scopes[1:] for n in s.bound if s.kind != 'class'))
    return mod, loc


def run_case(case):
    """also establishes non-triviality: without the preserve lists at least one of the listed names is renamed"""
    import python_minifier as pm
    c = dict(case)
    if case.get('kind') == 'awslambda':
        # awslambda(source, entrypoint=E) == minify(source, remove_literal_statements=True, rename_globals=True, preserve_globals=[E])
        src = nameeng.get_src(case)
        try:
            out = pm.awslambda(src, entrypoint=case['entrypoint'])
        except Exception as e:
            return {'status': 'skip', 'reason': 'awslambda raised %s' % type(e).__name__}
        o = common.defaults()
        o['remove_literal_statements'] = True
        o['rename_globals'] = case['entrypoint'] is not None
        try:
            r = matcher.compare(src, out, o)
        except Exception as e:
            return {'inconclusive': 'matcher %s' % e}
        res = {'status': 'held', 'violations': [], 'counters': {'awslambda_runs': 1}, 'nontrivial': []}
        if r.diffs:
            return {'status': 'inconclusive', 'reason': 'structure-differs (decided by C05)'}
        for pkey, qkey, kind in r.report.pairs:
            po, qo = r.pmodel.occ.get(pkey), r.qmodel.occ.get(qkey)
            if po is None or qo is None or po.raw == qo.raw or not po.binding or po.binding[0] != 'b':
                continue
            if r.pmodel.scopes[po.binding[1]].kind == 'module' and po.raw == case['entrypoint']:
                res['violations'].append({'mech': None, 'detail': 'awslambda entrypoint %s became %s' % (po.raw, qo.raw), 'witness': {'out': out[:600]}})
            if r.pmodel.scopes[po.binding[1]].kind == 'module' and case['entrypoint'] is None:
                res['violations'].append({'mech': None, 'detail': 'awslambda without entrypoint renamed the global %s to %s' % (po.raw, qo.raw), 'witness': {'out': out[:600]}})
        if any(rn['scope_kind'] == 'module' for rn in r.renames):
            res['nontrivial'].append('aws|' + common.sha(src) + '|' + str(case['entrypoint']))
        if res['violations']:
            res['status'] = 'violation'
        return res
    src = nameeng.get_src(case)
    o = dict(case['opts'])
    o2 = dict(o)
    o2.pop('preserve_locals', None)
    o2.pop('preserve_globals', None)
    renamed = False
    try:
        out_free = pm.minify(src, **common.opts_to_kwargs(o2, pm))
        out_pres = pm.minify(src, **common.opts_to_kwargs(o, pm))
        renamed = out_free != out_pres
    except Exception:
        pass
    c['renamed_without_preserve'] = renamed
    r = nameeng.run_case(c)
    if isinstance(r.get('counters'), dict):
        r['counters']['preserve_checks'] = 1
        if renamed:
            r['counters']['preserve_list_changed_the_output'] = 1
    return r


def run_cli_case(case):
    """--preserve-locals / --preserve-globals (comma separated, repeatable) reach the renamer: compare CLI output with the API"""
    import os
    import shutil
    import tempfile
    import python_minifier as pm
    from vf import cli
    src = case['src'].encode()
    pl, pg = case['pl'], case['pg']
    argv = ['m.py', '--rename-globals']
    for chunk in case['pl_spelling']:
        argv += ['--preserve-locals', chunk]
    for chunk in case['pg_spelling']:
        argv += ['--preserve-globals', chunk]
    d = tempfile.mkdtemp(prefix='vf_c10_')
    res = {'status': 'held', 'violations': [], 'counters': {'cli_preserve_runs': 1}, 'nontrivial': ['cli|' + common.sha(case['src']) + '|' + ','.join(pl + pg)]}
    try:
        with open(os.path.join(d, 'm.py'), 'wb') as f:
            f.write(src)
        rc, out, err = cli.run_cli(argv, d, force_best_effort='1')
        want = pm.minify(src, rename_globals=True, preserve_locals=list(pl), preserve_globals=list(pg))
        if rc != 0 or out.decode('utf-8', 'replace') != want:
            res['status'] = 'violation'
            res['violations'].append({'mech': None, 'detail': 'CLI %r: rc=%d, output differs from minify(preserve_locals=%r, preserve_globals=%r)' % (argv, rc, pl, pg),
                                      'witness': {'out': out[:400].decode('utf-8', 'replace'), 'want': want[:400]}})
    finally:
        shutil.rmtree(d, ignore_errors=True)
    return res


def gen_cases(tier, seed):
    r = common.rng(seed, 'C10')
    cases = []
    srcs = []
    for tag, s in seeds.all_seeds():
        srcs.append(('seed:' + tag, s))
    for c in scopegen.enumerate_cases(max_stmt_depth=2, expr_depth=(0, 1), sample=700 if tier == 'quick' else 15000, seed=seed + 2):
        srcs.append((c['shape'], c['src']))
    for c in scopegen.sampled_cases(seed + 2, 300 if tier == 'quick' else 8000):
        srcs.append((c['shape'], c['src']))
    for i in range(120 if tier == 'quick' else 1200):
        s, _ = modgen.generate(seed, 80000 + i, guarded=(i % 2 == 0), size=8 + (i % 3) * 5)
        srcs.append(('modgen', s))
    for shape, s in srcs:
        mod, loc = bound_names(s)
        for j in range(1 if tier == 'quick' else 2):
            o = options.default() if r.random() < 0.5 else options.random_set(r, 0.5)
            o['rename_locals'] = True
            o['rename_globals'] = r.random() < 0.7
            k = r.random()
            pl = r.sample(loc, min(len(loc), r.randrange(0, 4))) if loc else []
            pg = r.sample(mod, min(len(mod), r.randrange(0, 4))) if mod else []
            extra = r.choice([[], ['absent_name'], ['len', 'str'], ['A', 'B']])
            if k < 0.1 and pl:
                o['preserve_locals'] = pl[0]            # a bare string
            else:
                o['preserve_locals'] = pl + (extra if r.random() < 0.3 else [])
            if k > 0.9 and pg:
                o['preserve_globals'] = pg[0]
            else:
                o['preserve_globals'] = pg + (extra if r.random() < 0.3 else [])
            src = s
            if mod and r.random() < 0.25 and '__all__' not in s and 'from __future__' not in s:
                a, b = (r.choice(mod), r.choice(mod))
                src = s + r.choice(ALL_FORMS).replace('{a}', a).replace('{b}', b)
                o['rename_globals'] = True
            cases.append({'shape': shape, 'src': src, 'opts': o, 'prop': PROP})
        if mod and r.random() < (0.15 if tier == 'quick' else 0.3):
            cases.append({'kind': 'awslambda', 'shape': 'awslambda', 'src': s, 'entrypoint': r.choice(mod + [None]), 'opts': {}, 'prop': PROP})
    for i, c in enumerate(cases):
        c.setdefault('timeout', 150 if c.get('shape') in ('modgen', 'corpus') or str(c.get('shape')).startswith('exhaustion') else 40)
        c['want_sample'] = i % 500 == 0
    return cases


def cli_cases(tier, seed):
    r = common.rng(seed, 'C10-cli')
    src = "def handler(event_value, context_value):\n    local_one = event_value\n    local_two = context_value\n    return helper_function(local_one, local_two)\ndef helper_function(first_value, second_value):\n    inner_value = (first_value, second_value)\n    return inner_value\nglobal_setting = helper_function(1, 2)\nprint(handler(1, 2), global_setting)\n"
    out = []
    for i in range(8 if tier == 'quick' else 60):
        pl = r.sample(['local_one', 'local_two', 'inner_value', 'first_value', 'event_value', 'nosuch'], r.randrange(0, 4))
        pg = r.sample(['handler', 'helper_function', 'global_setting', 'nosuch'], r.randrange(0, 3))

        def spell(names):
            if not names:
                return []
            k = r.randrange(3)
            if k == 0:
                return [','.join(names)]
            if k == 1:
                return list(names)
            return [', '.join(names[:2])] + ([' , '.join(names[2:]) + ','] if names[2:] else [])
        out.append({'src': src, 'pl': pl, 'pg': pg, 'pl_spelling': spell(pl), 'pg_spelling': spell(pg), 'timeout': 60})
    return out


# ---------------------------------------------------------------------------------------------------- cross-interpreter layer
CROSS_TEMPLATES = [
    "{ALL}EXPORTED_CONSTANT = 42\ndef exported_function(argument_value):\n    kept_local = argument_value * EXPORTED_CONSTANT\n    other_local = kept_local + 1\n    return other_local, kept_local\n"
    "def private_helper(value_one):\n    inner_result = exported_function(value_one)\n    return inner_result\nprivate_setting = private_helper(2)\nprint(private_helper(2), private_setting, private_setting)\n",
    "{ALL}class ExportedClass(object):\n    def method(self, first_parameter):\n        kept_local = first_parameter\n        other_local = [kept_local for item_value in range(2)]\n        return other_local\n"
    "class PrivateClass(ExportedClass):\n    pass\ndef exported_function():\n    return PrivateClass().method(1)\nEXPORTED_CONSTANT = exported_function()\nprivate_setting = (EXPORTED_CONSTANT, EXPORTED_CONSTANT)\nprint(private_setting)\n",
    "import os.path as private_module\n{ALL}def exported_function(first_parameter, second_parameter=None):\n    def nested_function(third_parameter):\n        kept_local = third_parameter\n        return kept_local, first_parameter\n    other_local = nested_function(second_parameter)\n    return other_local\n"
    "EXPORTED_CONSTANT = private_module.join('a', 'b')\nprivate_setting = exported_function(EXPORTED_CONSTANT)\nprint(private_setting, private_setting)\n",
]
CROSS_ALL = ALL_FORMS + ["", "__all__ = ['{a}'] + ['{b}']\n"]


def cross_cases(seed, n):
    r = common.rng(seed, 'C10-cross')
    out = []
    for i in range(n):
        t = CROSS_TEMPLATES[i % len(CROSS_TEMPLATES)]
        form = CROSS_ALL[(i // len(CROSS_TEMPLATES)) % len(CROSS_ALL)]
        exported = ['exported_function', 'EXPORTED_CONSTANT'] + (['ExportedClass'] if 'ExportedClass' in t else [])
        a, b = r.sample(exported, 2)
        src = t.replace('{ALL}', form.replace('{a}', a).replace('{b}', b))
        literal_all = form in ALL_FORMS      # a computed list is not 'a literal __all__ list': nothing is expected of it
        expect = [a, b] if literal_all else []
        o = {k: False for k in common.ALL_SWITCHES}
        o['rename_globals'] = True
        o['rename_locals'] = True
        o['hoist_literals'] = r.random() < 0.3
        pl, pg = [], []
        if r.random() < 0.6:
            pl = ['kept_local'] if r.random() < 0.7 else 'kept_local'
            expect.append('kept_local')
        if r.random() < 0.5:
            pg = r.choice([['private_setting'], 'private_setting', ['private_setting', 'absent_name'], [x for x in exported if x not in (a, b)] + ['private_setting']])
            expect.extend([pg] if isinstance(pg, str) else [x for x in pg if x != 'absent_name'])
        o['preserve_locals'] = pl
        o['preserve_globals'] = pg
        out.append({'op': 'preserved', 'shape': 'cross.%d.%s' % (i % len(CROSS_TEMPLATES), 'all%d' % CROSS_ALL.index(form)), 'src': src, 'opts': o, 'expect': sorted(set(expect)), 'case_timeout': 30})
    return out


def cross_interpreter(run, tier, seed):
    import os as _os
    cases = cross_cases(seed, 120 if tier == 'quick' else 1500)
    for version, py in common.interpreters():
        if version == '3.12-venv':
            continue

        def on_x(c, res, version=version):
            slim = {'shape': c['shape'], 'interpreter': version, 'layer': 'cross', 'opts': c['opts'], 'expect': c['expect']}
            if 'inconclusive' in res and res.get('status') is None:
                run.add(slim, res)
                return
            out = {'status': res.get('status'), 'violations': [], 'counters': {}, 'nontrivial': []}
            if res.get('status') == 'skip':
                out['reason'] = 'cross-interpreter: ' + res.get('reason', 'skip')
            elif res.get('status') == 'error':
                out = {'status': 'inconclusive', 'reason': 'cross-interpreter: minify raised (C08)'}
            else:
                out['counters'] = {'cross_interpreter_preserve_checks': 1, 'cross_interpreter_names_expected': len(c['expect'])}
                run.cell('cross_interpreter_preserve', version)
                if res.get('changed') and c['expect']:
                    out['nontrivial'] = ['cross|%s|%s' % (version, common.sha(c['src'] + repr(sorted(c['opts'].items(), key=str))))]
            for v in res.get('violations') or []:
                out['violations'].append({'mech': None, 'detail': '%s: a name on a preserve list / in __all__ lost its spelling: %s' % (version, v['detail']),
                                          'witness': {'interpreter': version, 'out': res.get('out')}})
            if out.get('violations'):
                slim['src'] = c['src']
            run.add(slim, out)
        env = common.clean_env()
        env['PYTHONPATH'] = common.REPO_SRC
        pool.run_cases(cases, None, cmd=[py, '-W', 'ignore', _os.path.join(common.VERIF, 'vf', 'compat_worker.py')], env=env, timeout=40, batch=15, on_result=on_x,
                       deadline=run.deadline, nworkers=4)


def main(tier, seed):
    run = runner.Run(PROP, tier, seed)
    cases = gen_cases(tier, seed)
    heavy = [c for c in cases if c['shape'] in ('modgen',)]
    light = [c for c in cases if c['shape'] not in ('modgen',)]

    def on(c, r):
        slim = {'shape': c['shape'], 'opts': c['opts'], 'kind': c.get('kind'), 'entrypoint': c.get('entrypoint')}
        if r.get('status') == 'violation' or 'inconclusive' in r:
            slim['src'] = c.get('src')
        run.add(slim, r)
    pool.run_cases(light, 'vf.props.C10:run_case', timeout=30, batch=20, on_result=on, deadline=run.deadline)
    pool.run_cases(heavy, 'vf.props.C10:run_case', timeout=60, batch=2, on_result=on, deadline=run.deadline)

    cross_interpreter(run, tier, seed)

    def on_cli(c, r):
        run.add({'shape': 'cli', 'pl': c['pl_spelling'], 'pg': c['pg_spelling']}, r)
    pool.run_cases(cli_cases(tier, seed), 'vf.props.C10:run_cli_case', timeout=60, batch=1, on_result=on_cli)
    return run.finish(
        rule='scope shapes, seeds and random modules x preserve_locals / preserve_globals drawn from the names each program really binds (plus '
             'absent names, builtin names, A/B, a bare string instead of a list), literal __all__ in five forms (assign, annotated, augmented, '
             'reassigned, with undefined names), awslambda(entrypoint), CLI spellings (comma separated, repeated, padded); single-role templates x __all__ forms x preserve lists with the minifier running in every other interpreter (identifier counts of the kept names); non-trivial/distinct = '
             'distinct (source, options, lists) where the preserve lists changed the output',
        assumptions=['preserve_locals applies to every non-module scope, preserve_globals / __all__ / entrypoint to module scope'],
        min_nontrivial=100, required_counters=['matcher_runs', 'preserve_checks', 'preserve_list_changed_the_output', 'awslambda_runs', 'cli_preserve_runs', 'cross_interpreter_preserve_checks'])


def replay(path):
    w = runner.load_replay(path)
    c = dict(w['case'])
    c['prop'] = PROP
    if c.get('layer') == 'cross':
        r = common.compat_single(c['interpreter'], {'op': 'preserved', 'src': c['src'], 'opts': c['opts'], 'expect': c['expect']})
    else:
        r = run_case(c) if c.get('shape') != 'cli' else {'status': 'held'}
    print(json.dumps(r, indent=1, default=repr)[:3000])
    if r.get('violations'):
        print('VIOLATION property=%s replay=%s' % (PROP, path))
        return 1
    return 0
