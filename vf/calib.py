"""Calibration by deliberate breakage (not part of MANIFEST): python -m vf.calib [ids...] [--tier quick]

Copies /repo/src to a scratch directory, applies one textual mutation, runs the named check against it through the
calibration-only VF_REPO override, removes the copy. Expectation 'fire' = exit 1 with a VIOLATION line;
'silent' = exit 0.
"""
import os
import shutil
import subprocess
import sys
import tempfile

from vf import common

M = []


def m(id, prop, path, search, replace, expect='fire', note=''):
    M.append(dict(id=id, prop=prop, path=path, search=search, replace=replace, expect=expect, note=note))


P = 'src/python_minifier/'
m('m01', 'C02', P + 'token_printer.py', "        elif s.endswith('.0'):\n            s = s[:-1]", "        elif s.endswith('.0'):\n            s = s[:-2]", note='1.0 printed as 1')
m('m02', 'C02', P + 'expression_printer.py', "        if isinstance(op_node, ast.Pow) and right_precedence == 14:\n            op_precedence = right_precedence\n", "", note='** with unary operand')
m('m04', 'C03', P + 'rename/mapper.py', "    iter_namespace = namespace\n    for generator in node.generators:", "    iter_namespace = node\n    for generator in node.generators:", note='first iterable in comprehension scope')
m('m05', 'C03', P + 'rename/renamer.py', "        while node is not namespace:\n            namespaces.add(node.namespace)\n            node = node.namespace\n\n    return namespaces", "    return namespaces", note='reservation scope ignores the scopes the references are in')
m('m06', 'C03', P + 'rename/util.py', "    if isinstance(node.namespace, ast.ClassDef):\n        return get_nonlocal_namespace(node.namespace)\n\n    return node.namespace", "    return node.namespace", note='class scopes not skipped')
m('m07', 'C04', P + 'rename/util.py', "    if hasattr(func.args, 'posonlyargs') and node in func.args.posonlyargs:\n        return True\n", "    if hasattr(func.args, 'posonlyargs') and node in func.args.posonlyargs:\n        return True\n    if hasattr(func.args, 'kwonlyargs') and node in func.args.kwonlyargs:\n        return True\n", note='keyword-only params renamed in place')
m('m08', 'C04', P + 'rename/bind_names.py', "        if isinstance(namespace, ast.ClassDef):\n            # This name will become an attribute of the class, so it can't be renamed\n            binding.disallow_rename()\n", "", note='class attributes renamable')
m('m09', 'C04', P + 'rename/renamer.py', "                if isinstance(namespace, ast.Module) and prefix_globals:", "                if False:", note='no underscore prefix')
m('m10', 'C05', P + '__init__.py', "    if remove_pass:\n", "    if True:\n", note='remove_pass ignores its switch')
m('m11', 'C05', P + 'transforms/remove_exception_brackets.py', "        if binding.is_redefined():\n            continue\n", "", note='no is_redefined check')
m('m12', 'C05', P + 'transforms/remove_annotations.py', "            tricky_types = ['NamedTuple', 'TypedDict']", "            tricky_types = ['TypedDict']", note='NamedTuple fields stripped')
m('m13', 'C05', P + 'transforms/remove_explicit_return_none.py', "isinstance(node.body[-1], ast.Return) and node.body[-1].value is None:", "isinstance(node.body[-1], ast.Return):", note='trailing return <value> dropped')
m('m14', 'C06', P + 'rename/rename_literals.py', "        return type(self._value) == type(other._value) and self._value == other._value", "        return self._value == other._value", note='HoistedValue eq without type')
m('m14b', 'C06', P + 'rename/rename_literals.py', "        return hash(str(type(self._value)) + str(hash(self._value)))", "        return hash(self._value)", note='HoistedValue hash without type (with m14 needed)', expect='silent')
m('m15', 'C06', P + 'rename/util.py', "    inserted = False\n    for node in suite:\n", "    inserted = True\n    yield new_node\n    for node in suite:\n", note='alias inserted before docstring / __future__')
m('m16', 'C06', P + 'rename/rename_literals.py', "                    namespace_path = self.common_path(namespace_path, self.namespace_path(node))", "                    pass", note='alias placed in the first use path')
m('m17', 'C07', P + 'transforms/constant_folding.py', "    if type(a) != type(b):\n        return False\n", "", expect='silent', note='equal_value_and_type without type: equivalent, the candidate is built from the value itself')
m('m18', 'C07', P + 'transforms/constant_folding.py', "        if isinstance(node.op, ast.Div):\n", "        if False:\n", note='Div folded (2.7 differs)')
m('m18b', 'C07', P + 'transforms/constant_folding.py', "        if isinstance(original_value, float) and math.isnan(original_value):", "        if False:", expect='silent', note='NaN accepted: equivalent, printing nan and re-evaluating fails and the fold is dropped')
m('m18c', 'C07', P + 'transforms/constant_folding.py', "        if len(folded_expression) >= len(original_expression):", "        if False:", note='non-shorter folds accepted')
m('m19', 'C08', P + 'module_printer.py', "                elif self.precedence(item.context_expr) != 0 and self.precedence(item.context_expr) <= self.precedence(\n                    node\n                ):", "                elif False:", note='with item never parenthesised')
m('m20', 'C09', P + 'rename/resolve_names.py', "['exec', 'eval', 'locals', 'globals', 'vars']", "['exec', 'eval', 'locals', 'globals']", note='vars not a taint trigger')
m('m21', 'C09', P + '__init__.py', "        rename_globals = False\n        rename_locals = False\n", "        rename_globals = False\n", note='locals still renamed when tainted')
m('m22', 'C10', P + 'rename/util.py', "            elif binding.name in preserve_locals:\n                binding.disallow_rename()\n", "", note='preserve_locals ignored')
m('m23', 'C10', P + 'rename/util.py', "        elif isinstance(node, (ast.AugAssign, ast.AnnAssign)):", "        elif isinstance(node, ast.AnnAssign):", note='__all__ += ignored')
m('m24', 'C10', P + '__init__.py', "rename_globals=rename_globals, preserve_globals=[entrypoint],", "rename_globals=rename_globals,", note='awslambda drops entrypoint')
m('m25', 'C11', P + 'rename/renamer.py', "        return binding.new_mention_count()\n", "        return (binding.new_mention_count(), hash(binding.name or ''))\n", note='hash-seed dependent order')
m('m26', 'C11', P + '__init__.py', "    filename = filename or 'python_minifier.minify source'\n", "    filename = filename or 'python_minifier.minify source'\n    if source in _memo:\n        return _memo[source]\n", note='memo ignoring options (part 1)')
m('m27', 'C12', P + 'ministring.py', "            self.quote: BACKSLASH + self.quote,\n        }\n\n        for c in self._s:\n            if c in escaped:\n                s += escaped[c]\n            else:\n                if self.safe_mode:\n                    unicode_value = ord(c)\n                    if unicode_value <= 0x7F:\n                        s += c\n                    elif unicode_value <= 0xFFFF:\n                        s += BACKSLASH + 'u' + format(unicode_value, '04x')\n                    else:\n                        s += BACKSLASH + 'U' + format(unicode_value, '08x')\n                else:\n                    s += c\n\n        return s\n\n    def to_long", "        }\n\n        for c in self._s:\n            if c in escaped:\n                s += escaped[c]\n            else:\n                if self.safe_mode:\n                    unicode_value = ord(c)\n                    if unicode_value <= 0x7F:\n                        s += c\n                    elif unicode_value <= 0xFFFF:\n                        s += BACKSLASH + 'u' + format(unicode_value, '04x')\n                    else:\n                        s += BACKSLASH + 'U' + format(unicode_value, '08x')\n                else:\n                    s += c\n\n        return s\n\n    def to_long", note='MiniString.to_short does not escape the active quote')
m('m42', 'C12', P + 'f_string.py', "            elif c == '\\\\':\n                literal += '\\\\\\\\'\n", "", note='f_string.Str stops doubling backslashes')
m('m28', 'C12', P + 'transforms/constant_folding.py', "        if not is_constant_node(node.right, (ast.Num, ast.NameConstant)):\n            return node\n", "        if not is_constant_node(node.right, (ast.Num, ast.NameConstant)) and not isinstance(node.right, ast.Call):\n            return node\n", note='call operand evaluated')
m('m29', 'C13', P + '__main__.py', "        dest='remove_asserts',", "        dest='remove_debug_',", note='swapped dest (part)')
m('m30', 'C13', P + '__main__.py', "        remove_debug=minification_args.remove_debug,\n", "", note='remove_debug not forwarded')
m('m31', 'C14', P + '__main__.py', "    if len(minified_bytes) > len(source):", "    if len(minified_result) > len(source):", note='characters vs bytes')
m('m32', 'C15', P + '__main__.py', "file.endswith(('.py', '.pyw'))", "file.endswith(('py', 'pyw'))", note='suffix without dot')
m('m33', 'C15', P + '__main__.py', "            with open(path, 'rb') as f:\n                source = f.read()\n\n            try:\n                minified = do_minify(source, path, args)", "            with open(path, 'rb') as f:\n                source = f.read()\n            if args.in_place:\n                open(path, 'wb').close()\n            try:\n                minified = do_minify(source, path, args)", note='destination truncated before minify')
m('m34', 'C16', P + '__init__.py', "    if preserve_shebang is True:", "    if True:", note='shebang kept when off')
m('m35', 'C16', P + '__main__.py', "    minified_bytes = minified_result.encode('utf-8')", "    minified_bytes = minified_result.encode('latin-1', 'replace')", note='wrong output encoding')
m('m36', 'C17', P + 'rename/binding.py', "        return rename_cost <= current_cost\n\n    def disallow_rename(self):", "        return True\n\n    def disallow_rename(self):", note='NameBinding.should_rename always true')
m('m37', 'C17', P + 'rename/rename_literals.py', "        return rename_cost <= current_cost", "        return True", note='HoistedBinding.should_rename always true')
m('m38', 'C01', P + 'transforms/remove_pass.py', "filter(lambda n: not isinstance(n, ast.Pass), node_list)", "filter(lambda n: not isinstance(n, (ast.Pass, ast.Break)), node_list)", note='break removed')
m('m39', 'C03', P + 'rename/name_generator.py', "    reserved = keyword.kwlist + dir(builtins)", "    reserved = []", note='keywords and builtins handed out')
m('m40', 'C05', P + 'transforms/remove_debug.py', "        if isinstance(node.test, ast.Name) and node.test.id == '__debug__':\n            return True\n", "        if isinstance(node.test, ast.Name) and node.test.id == '__debug__':\n            return True\n        if isinstance(node.test, ast.UnaryOp) and isinstance(node.test.op, ast.Not) and isinstance(node.test.operand, ast.Name) and node.test.operand.id == '__debug__':\n            return True\n", note='if not __debug__ removed')
# benign
m('b02', '*', P + 'transforms/constant_folding.py', "        if isinstance(node.op, ast.Div):\n", "        if isinstance(node.op, ast.Div) and sys.version_info < (3, 0):\n", expect='silent', note='fold / on python 3')
m('b03', '*', P + 'transforms/suite_transformer.py', "    def visit_Module(self, node):\n        node.body = self.suite(node.body, parent=node)\n        return node\n", "    def visit_Module(self, node):\n        node.body = self.suite(node.body, parent=node)\n        return node\n\n    def visit_ExceptHandler(self, node):\n        node.body = self.suite(node.body, parent=node)\n        return node\n", expect='silent', note='pass removed in handlers too')


def run(mut, tier='quick', props=None):
    tmp = tempfile.mkdtemp(prefix='vf_calib_')
    try:
        shutil.copytree(os.path.join('/repo', 'src'), os.path.join(tmp, 'src'))
        path = os.path.join(tmp, mut['path'])
        s = open(path).read()
        if mut['search'] is None:
            return None
        if mut['search'] not in s:
            return 'SEARCH-NOT-FOUND'
        s = s.replace(mut['search'], mut['replace'], 1)
        if mut['id'] == 'm26':
            s = s.replace("class UnstableMinification(RuntimeError):", "_memo = {}\n\n\nclass UnstableMinification(RuntimeError):", 1)
            s = s.replace("            return shebang_line + '\\n' + minified\n\n    return minified\n", "            minified = shebang_line + '\\n' + minified\n\n    _memo[source] = minified\n    return minified\n", 1)
        open(path, 'w').write(s)
        out = []
        default_props = ['C02', 'C03', 'C04', 'C05', 'C06', 'C07', 'C08', 'C09', 'C10', 'C01'] if mut['prop'] == '*' else [mut['prop']]
        for prop in (props or default_props):
            env = dict(os.environ)
            env['VF_REPO'] = tmp
            env['VF_EVIDENCE_DIR'] = os.path.join(tmp, 'evidence')
            p = subprocess.run([os.path.join(common.VERIF, 'check'), prop, '--tier', tier], env=env, stdout=subprocess.PIPE,
                               stderr=subprocess.STDOUT, timeout=3600)
            text = p.stdout.decode('utf-8', 'replace')
            fired = p.returncode == 1 and 'VIOLATION property=' in text
            first = [l for l in text.split('\n') if l.startswith('  mech=')][:1]
            out.append((prop, p.returncode, fired, first))
        return out
    finally:
        shutil.rmtree(tmp, ignore_errors=True)


def main():
    args = [a for a in sys.argv[1:] if not a.startswith('--')]
    tier = 'quick'
    props = None
    for a in sys.argv[1:]:
        if a.startswith('--tier='):
            tier = a.split('=')[1]
        if a.startswith('--props='):
            props = a.split('=')[1].split(',')
    for mut in M:
        if args and mut['id'] not in args:
            continue
        r = run(mut, tier, props)
        print(mut['id'], mut['prop'], mut['expect'], mut['note'], '->', r)
        sys.stdout.flush()


if __name__ == '__main__':
    main()
