"""Verdict aggregation, known findings, replay files, evidence, exit status."""
import json
import os
import re
import sys
import time

from vf import common

# calibration / seeded runs (VF_REPO override) write their evidence elsewhere so that the committed evidence always describes /repo
EVIDENCE_DIR = os.environ.get('VF_EVIDENCE_DIR') or os.path.join(common.VERIF, 'evidence')
REPLAY_DIR = os.path.join(EVIDENCE_DIR, 'replay')
KNOWN_FILE = os.path.join(common.VERIF, 'known_findings.txt')

TIER_BUDGET = {'quick': 900.0, 'thorough': 2700.0}   # generous: the workloads are sized for ~30-60 s / ~10-25 min on an idle 16-core box


def load_known():
    """known_findings.txt (committed, never written at run time):
         known: property=<id> key=<mechanism key> <what fails>
         fixed: property=<id> <commit> key=<mechanism key> <what failed>
       Only `known:` lines suppress; `fixed:` lines match nothing."""
    known = {}
    fixed = []
    if os.path.exists(KNOWN_FILE):
        for line in open(KNOWN_FILE, encoding='utf-8'):
            line = line.rstrip('\n')
            m = re.match(r'known: property=(\S+) key=(\S+) (.*)$', line)
            if m:
                known[(m.group(1), m.group(2))] = m.group(3)
            elif line.startswith('fixed:'):
                fixed.append(line)
    return known, fixed


class Run(object):
    def __init__(self, prop, tier, seed):
        self.prop = prop
        self.tier = tier
        self.seed = seed
        self.t0 = time.time()
        self.deadline = self.t0 + TIER_BUDGET[tier]
        self.evaluations = 0
        self.held = 0
        self.skipped = {}
        self.inconclusive = {}
        self.nontrivial = set()
        self.counters = {}
        self.matrix = {}
        self.samples = []
        self.violations = []        # unlisted
        self.known_hits = {}        # key -> count
        self.known, self.fixed = load_known()
        self.notes = []

    # ---- accumulation -------------------------------------------------------------------------
    def count(self, name, n=1):
        self.counters[name] = self.counters.get(name, 0) + n

    def cell(self, matrix, key, n=1):
        m = self.matrix.setdefault(matrix, {})
        m[key] = m.get(key, 0) + n

    def sample(self, obj, limit=8):
        if len(self.samples) < limit:
            self.samples.append(obj)

    def add(self, case, res):
        """Fold one worker result into the run."""
        self.evaluations += 1
        if res is None:
            res = {'inconclusive': 'no-result'}
        if 'inconclusive' in res and res.get('status') is None:
            r = str(res['inconclusive'])
            r = re.sub(r'\s+', ' ', r)[:80]
            self.inconclusive[r] = self.inconclusive.get(r, 0) + 1
            if res.get('trace') and len(self.notes) < 5:
                self.notes.append(res['trace'][-600:])
            return
        for k, v in (res.get('counters') or {}).items():
            self.count(k, v)
        for mname, cells in (res.get('matrix') or {}).items():
            for ck, v in cells.items():
                self.cell(mname, ck, v)
        for nt in (res.get('nontrivial') or []):
            self.nontrivial.add(nt if isinstance(nt, str) else json.dumps(nt, sort_keys=True))
        for r, nn in (res.get('inconclusive_reasons') or {}).items():
            self.inconclusive[r] = self.inconclusive.get(r, 0) + nn
        st = res.get('status')
        if st == 'skip':
            r = res.get('reason', 'skip')
            self.skipped[r] = self.skipped.get(r, 0) + 1
        elif st == 'inconclusive':
            r = res.get('reason', 'inconclusive')
            self.inconclusive[r] = self.inconclusive.get(r, 0) + 1
        elif st == 'held':
            self.held += 1
            if res.get('sample') is not None:
                self.sample(res['sample'])
        for v in (res.get('violations') or []):
            self.violation(case, v)

    def violation(self, case, v):
        """v: {'mech': key or None, 'detail': str, 'witness': {...}}"""
        key = v.get('mech')
        if key and (self.prop, key) in self.known:
            self.known_hits[key] = self.known_hits.get(key, 0) + 1
            return
        w = {'property': self.prop, 'case': case, 'mech': key, 'detail': v.get('detail'),
             'witness': v.get('witness'), 'seed': self.seed, 'tier': self.tier}
        self.violations.append(w)

    def timed_out(self):
        return time.time() > self.deadline

    # ---- finish ------------------------------------------------------------------------------------
    def finish(self, rule, assumptions=None, extra=None, min_nontrivial=2, exhaustive=False, level='exploration',
               required_counters=None):
        wall = time.time() - self.t0
        os.makedirs(REPLAY_DIR, exist_ok=True)
        lines = []
        seen = set()
        for w in self.violations:
            blob = json.dumps(w, sort_keys=True, default=repr)
            h = common.sha(blob)
            path = os.path.join(REPLAY_DIR, '%s-%s.json' % (self.prop, h))
            sig = (w.get('mech'), common.abbreviate(w.get('detail') or '', 120))
            with open(path, 'w') as f:
                f.write(blob)
            if sig in seen and len(lines) >= 25:
                continue
            seen.add(sig)
            lines.append('VIOLATION property=%s replay=%s' % (self.prop, path))
            lines.append('  mech=%s detail=%s' % (w.get('mech'), common.abbreviate(w.get('detail') or '', 300)))
        for key, n in sorted(self.known_hits.items()):
            print('KNOWN-FINDING: property=%s key=%s hits=%d %s' % (self.prop, key, n, self.known[(self.prop, key)]))
        for line in lines[:60]:
            print(line)
        nn = len(self.nontrivial)
        missing = [c for c in (required_counters or []) if not self.counters.get(c)]
        inconclusive_run = (nn < min_nontrivial) or bool(missing)
        coverage = {
            'evaluations': self.evaluations,
            'distinct_nontrivial': nn,
            'rule': rule,
            'samples': self.samples or [{'note': 'no sample recorded'}],
            'held': self.held,
            'skipped_outside_property': self.skipped,
            'inconclusive_by_reason': self.inconclusive,
            'monitor_counters': self.counters,
            'matrices': self.matrix,
            'known_findings_hit': self.known_hits,
            'exhaustive': bool(exhaustive),
        }
        if extra:
            coverage.update(extra)
        if self.notes:
            coverage['harness_notes'] = self.notes
        ev = {
            'property_id': self.prop, 'tier': self.tier, 'seed': self.seed, 'level': level,
            'coverage': coverage, 'assumptions': assumptions or [], 'wall_s': round(wall, 2),
            'violations': len(self.violations),
        }
        os.makedirs(EVIDENCE_DIR, exist_ok=True)
        tmp = os.path.join(EVIDENCE_DIR, self.prop + '.json.tmp')
        with open(tmp, 'w') as f:
            json.dump(ev, f, indent=1, sort_keys=True, default=repr)
        os.replace(tmp, os.path.join(EVIDENCE_DIR, self.prop + '.json'))
        ninc = sum(self.inconclusive.values())
        print('%s tier=%s seed=%d evaluations=%d held=%d distinct_nontrivial=%d inconclusive=%d skipped=%d '
              'known_hits=%d violations=%d wall=%.1fs' % (
                  self.prop, self.tier, self.seed, self.evaluations, self.held, nn, ninc,
                  sum(self.skipped.values()), sum(self.known_hits.values()), len(self.violations), wall))
        if self.violations:
            return 1
        if inconclusive_run:
            print('INCONCLUSIVE property=%s reason=%s' % (
                self.prop, ('monitor never reached: ' + ','.join(missing)) if missing else
                'only %d distinct non-trivial cases observed (need %d)' % (nn, min_nontrivial)))
            return 3
        return 0


def load_replay(path):
    with open(path) as f:
        return json.load(f)
