"""
PYTHONPATH=/tmp/huntwt23/src /venv/bin/python repro.py

With remove_class_attribute_annotations enabled the docs promise that annotations are kept for classes derived from
dataclasses.dataclass, typing.NamedTuple and typing.TypedDict.  The check is purely on the spelling of the decorator /
base-class expression, so an import alias, a pre-configured decorator, or an indirect TypedDict base defeat it.
"""
import os
import subprocess
import sys
import tempfile

import python_minifier

CASES = {
    'dataclass imported under another name': '''
from dataclasses import dataclass as dc
@dc
class P:
    x: int
    y: int = 2
print(P(1))
''',
    'pre-configured dataclass decorator': '''
import dataclasses
frozen = dataclasses.dataclass(frozen=True)
@frozen
class P:
    x: int
    y: int = 2
print(P(1))
''',
    'NamedTuple imported under another name': '''
from typing import NamedTuple as NT
class P(NT):
    x: int
    y: int = 2
print(P(1))
''',
    'subclass of a TypedDict': '''
from typing import TypedDict
class Base(TypedDict):
    x: int
class Child(Base):
    y: str
print(Child.__annotations__, sorted(Child.__required_keys__))
''',
}


def run(code):
    f = tempfile.NamedTemporaryFile('w', suffix='.py', delete=False)
    f.write(code)
    f.close()
    p = subprocess.run([sys.executable, f.name], stdout=subprocess.PIPE, stderr=subprocess.PIPE, universal_newlines=True)
    os.unlink(f.name)
    return p.returncode, p.stdout, p.stderr.strip().splitlines()[-1:]


options = python_minifier.RemoveAnnotationsOptions(remove_class_attribute_annotations=True)
bad = 0
for name, src in CASES.items():
    minified = python_minifier.minify(src, remove_annotations=options)
    a, b = run(src), run(minified)
    print('== %s\n%s\noriginal: %r\nminified: %r' % (name, minified, a, b))
    if a != b:
        bad += 1
if bad:
    print('DEFECT: %d case(s) differ' % bad)
    sys.exit(1)
print('no difference')
