"""
hoist_literals replaces short string literals although the result is LARGER than the
output with hoist_literals=False: a literal can be printed directly after / before a keyword
(return'', ''if x else''), a name needs a space (return A, A if x else A). The cost model
does not count these separators.

docs/source/transforms/hoist_literals.rst: "This will only be done if multiple literals can be
replaced with a single variable referenced in multiple locations (and the resulting code is smaller)."

Run: PYTHONPATH=/tmp/huntwt31/src /venv/bin/python repro.py
"""
import sys

import python_minifier

CASES = {
    'return': '''
def f(a):
    if a == 1: return ''
    if a == 2: return ''
    if a == 3: return ''
    if a == 4: return ''
    if a == 5: return ''
    if a == 6: return ''
    return a
''',
    'conditional expression': '''
def f(a):
    return ['' if a else '', '' if a > 1 else '', '' if a > 2 else '']
''',
    'module level, default options': '''
import sys
def f(a, b):
    if a: return b''
    elif b: return b''
    elif a in b'': yield b''
    return b''if a else b''
''',
}

failed = False
for title, source in CASES.items():
    for options in ({}, {'rename_locals': False}):
        hoisted = python_minifier.minify(source, hoist_literals=True, **options)
        plain = python_minifier.minify(source, hoist_literals=False, **options)
        if len(hoisted) > len(plain):
            failed = True
            print('== %s %r: hoist_literals=True gives %d bytes, hoist_literals=False gives %d bytes' % (title, options, len(hoisted), len(plain)))
            print(hoisted)
            print('--')
            print(plain)

if failed:
    print('DEFECT PRESENT: hoisting made the output larger')
    sys.exit(1)
print('hoisting never made the output larger')
