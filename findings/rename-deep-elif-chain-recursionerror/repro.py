"""
PYTHONPATH=/tmp/huntwt21/src /venv/bin/python repro.py

minify() raises RecursionError (default recursion limit 1000) for modules that CPython compiles without
trouble: a 600-branch if/elif chain (dispatch tables in generated code) - even with every transform
switched off the failure is inside rename.bind_names - or a 300-operand `a + a + ...` expression.
"""
import sys
import traceback

import python_minifier

ALL_OFF = dict(
    remove_annotations=False, remove_pass=False, remove_literal_statements=False, combine_imports=False,
    hoist_literals=False, rename_locals=False, remove_object_base=False, convert_posargs_to_args=False,
    remove_explicit_return_none=False, remove_builtin_exception_brackets=False, constant_folding=False,
)

elif_chain = 'def f(x):\n    if x == 0: return 0\n' + ''.join('    elif x == %d: return %d\n' % (i, i) for i in range(1, 600))
long_sum = 'def f(a):\n    return ' + ' + '.join(['a'] * 300) + '\n'

failed = False
for label, source, options in (
    ('600-branch elif chain, all transforms off', elif_chain, ALL_OFF),
    ('600-branch elif chain, default options', elif_chain, {}),
    ('300-operand sum, default options', long_sum, {}),
):
    compile(source, label, 'exec')          # the interpreter is happy
    namespace = {}
    exec(source, namespace)
    try:
        python_minifier.minify(source, **options)
        print('%-45s ok' % label)
    except RecursionError as e:
        frames = traceback.extract_tb(e.__traceback__)
        where = sorted(set('%s:%s' % (f.filename.split('python_minifier/')[-1], f.name) for f in frames if 'python_minifier' in f.filename))
        print('%-45s RecursionError via %s' % (label, ', '.join(where[:6])))
        failed = True

if failed:
    print('DEFECT: minify() raises for modules the interpreter compiles')
    sys.exit(1)
print('no difference')
