"""
PYTHONPATH=/tmp/huntwt21/src /venv/bin/python repro.py

The cost model of rename_locals / hoist_literals assumes that the statement it inserts at the top of a
function body (`A=arg` or `A='literal'`) costs 2 bytes of overhead. When the body contains a compound
statement the inserted statement needs its own line: newline + one tab per nesting level. The rename is then
a net loss and the output is larger than an (already minimal) input.
"""
import sys

import python_minifier

CASES = [
    "def f(abc):\n\tif abc:return abc,abc",
    "class C:\n\tdef f(x):\n\t\tif x:return'abcd','abcd'",
    "class C:\n\tclass D:\n\t\tclass E:\n\t\t\tdef f(B):\n\t\t\t\tif B:return None,None,None",
]

failed = False
for source in CASES:
    default = python_minifier.minify(source)
    plain = python_minifier.minify(source, rename_locals=False, hoist_literals=False)
    print('input %3d bytes, default options %3d bytes, without rename/hoist %3d bytes' % (len(source), len(default), len(plain)))
    print('   ' + repr(default))
    if len(default) > len(source) or len(default) > len(plain):
        failed = True

if failed:
    print('DEFECT: rename_locals / hoist_literals made the module bigger')
    sys.exit(1)
print('no difference')
