"""
PYTHONPATH=/tmp/huntwt23/src /venv/bin/python repro.py

remove_asserts / remove_debug delete the only `yield` of a function, so a generator function becomes
a plain function.  Under `python -O` (the documented "safe" condition) the original is still a generator
(the compiler decides that from the symbol table, before it drops the assert / `if __debug__` block).
A second variant: a `global` declaration inside the removed block stops applying.
"""
import os
import subprocess
import sys
import tempfile

import python_minifier

SRC = '''
def checked():
    assert (yield 'checking')

def debug_items():
    if __debug__:
        yield 'debug item'

def set_level():
    if __debug__:
        global level
    level = 2

level = 1
print(list(checked()), list(debug_items()))
set_level()
print(level)
'''

minified = python_minifier.minify(SRC, remove_asserts=True, remove_debug=True)
print('minified:\n' + minified + '\n')


def run(code):
    f = tempfile.NamedTemporaryFile('w', suffix='.py', delete=False)
    f.write(code)
    f.close()
    p = subprocess.run([sys.executable, '-O', f.name], stdout=subprocess.PIPE, stderr=subprocess.PIPE, universal_newlines=True)
    os.unlink(f.name)
    return p.returncode, p.stdout, p.stderr.strip().splitlines()[-1:]


a = run(SRC)
b = run(minified)
print('original under -O :', a)
print('minified under -O :', b)
if a != b:
    print('DEFECT: output differs even when run with -O')
    sys.exit(1)
print('no difference')
