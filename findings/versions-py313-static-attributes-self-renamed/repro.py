"""
Python 3.13+ only: run as
    PYTHONPATH=/tmp/huntwt32/src /root/.pyenv/versions/3.13.0/bin/python repro.py

The 3.13 compiler records, in the new class attribute __static_attributes__, the names assigned
through `self.<name> = ...` in the methods of a class.  It only recognises the literal parameter name
`self`.  rename_locals (on by default) renames `self`, so every class loses its
__static_attributes__.  Exits 1 when the defect is present.
"""
import os
import subprocess
import sys
import tempfile

import python_minifier

if sys.version_info < (3, 13):
    print('this repro needs python 3.13 or later (__static_attributes__ does not exist before)')
    sys.exit(0)

SOURCE = '''
class Account:
    def __init__(self, owner):
        self.owner = owner
        self.balance = 0

    def deposit(self, amount):
        self.balance += amount
        self.last_amount = amount

print(sorted(Account.__static_attributes__))
'''


def run(code):
    fd, path = tempfile.mkstemp(suffix='.py')
    os.write(fd, code.encode('utf-8'))
    os.close(fd)
    try:
        p = subprocess.run([sys.executable, path], stdout=subprocess.PIPE, stderr=subprocess.PIPE)
        return p.returncode, p.stdout.decode(), p.stderr.decode().strip()[-200:]
    finally:
        os.remove(path)


minified = python_minifier.minify(SOURCE)
print('minified:\n' + minified)
original_result = run(SOURCE)
minified_result = run(minified)
print('original run:', original_result)
print('minified run:', minified_result)
if original_result != minified_result:
    print('DEFECT: __static_attributes__ of the class changed because `self` was renamed')
    sys.exit(1)
print('no difference')
