"""
The output of minify() depends on what happens to be in the `builtins` module of the minifying process:
names put there by site.py (exit, quit, help, copyright, credits, license), by the REPL (`_`), by gettext.install()
(`_`), by IPython (display, get_ipython) ... are treated as builtins.  The same source gives different output
under `python -S`, in a frozen/embedded interpreter, or after an unrelated earlier call in the same process.

Run: PYTHONPATH=/tmp/huntwt34/src /venv/bin/python repro.py
"""
import builtins
import subprocess
import sys

import python_minifier

source = '''
def push(stack, exit):
    kind = type(exit)
    stack.append((kind, exit))
    stack.check(exit)
    return exit

def translate(message, fallback):
    for _ in range(3):
        message = fallback(message)
    return message
'''

first = python_minifier.minify(source)

# something unrelated in the same process installs a builtin, as gettext.install() does
import gettext
gettext.install('no-such-domain')
second = python_minifier.minify(source)
del builtins._

no_site = subprocess.check_output(
    [sys.executable, '-S', '-c', 'import sys, python_minifier; sys.stdout.write(python_minifier.minify(sys.stdin.read()))'],
    input=source.encode(),
).decode()

print('--- first call\n' + first)
print('--- same call after gettext.install() in this process\n' + second)
print('--- same call under python -S\n' + no_site)

if first != second or first != no_site:
    print('DEFECT: %d different outputs' % len({first, second, no_site}) + ' for the same source, interpreter and options')
    sys.exit(1)
    print(' for the same source, interpreter and options')
    sys.exit(1)
