"""
Default options: removing a variable annotation that contains a `yield` turns a generator function into a
plain function (python 3.6 - 3.13; a SyntaxError from 3.14 on).

Run: PYTHONPATH=/tmp/huntwt34/src /venv/bin/python repro.py
"""
import sys

import python_minifier

source = '''
def ticks():
    pending: (yield)

def wait(obj):
    obj.result: (yield 'ready') = None
    return 5

class Box: pass

print(type(ticks()).__name__, type(wait(Box())).__name__)
'''


def run(code):
    import io
    import contextlib
    out = io.StringIO()
    with contextlib.redirect_stdout(out):
        try:
            exec(compile(code, 'module', 'exec'), {})
        except Exception as e:
            print(type(e).__name__, e)
    return out.getvalue().strip()


minified = python_minifier.minify(source)
print(minified)
a, b = run(source), run(minified)
print('original:', a)
print('minified:', b)
if a != b:
    print('DEFECT: behaviour differs')
    sys.exit(1)
