"""
Python 2 only: run as
    PYTHONPATH=/tmp/huntwt32/src /root/.pyenv/versions/2.7.18/bin/python repro.py

input() (== eval(raw_input())) and execfile() evaluate code in the caller's
namespaces on python 2, but unlike eval/exec/locals/globals/vars they do not
stop the renamer.  Exits 1 when the defect is present.
"""
from __future__ import print_function
import os
import subprocess
import sys
import tempfile

import python_minifier

if sys.version_info[0] != 2:
    print('this repro needs python 2.7 (input() / execfile() only evaluate code there)')
    sys.exit(0)

SOURCE_INPUT = '''
def ask():
    secret_value = 42
    other_value = secret_value + 1
    return input()
print ask()
'''

SOURCE_EXECFILE = '''
import os, tempfile
fd, helper_path = tempfile.mkstemp(suffix='.py')
os.write(fd, "print counter_value * 2\\n")
os.close(fd)
def run_helper():
    counter_value = 21
    unused_copy = counter_value
    execfile(helper_path)
run_helper()
os.remove(helper_path)
'''


def run(code, stdin_text):
    fd, path = tempfile.mkstemp(suffix='.py')
    os.write(fd, code)
    os.close(fd)
    try:
        p = subprocess.Popen([sys.executable, path], stdin=subprocess.PIPE, stdout=subprocess.PIPE, stderr=subprocess.PIPE)
        out, err = p.communicate(stdin_text)
        last = err.strip().splitlines()[-1] if err.strip() else ''
        return p.returncode, out, last
    finally:
        os.remove(path)


bad = False
for name, source, stdin_text in [('input()', SOURCE_INPUT, 'secret_value\n'), ('execfile()', SOURCE_EXECFILE, '')]:
    minified = python_minifier.minify(source)
    original_result = run(source, stdin_text)
    minified_result = run(minified.encode('utf-8'), stdin_text)
    print('--- %s' % name)
    print('minified: %r' % minified)
    print('original run: %r' % (original_result,))
    print('minified run: %r' % (minified_result,))
    if original_result != minified_result:
        bad = True

if bad:
    print('DEFECT: locals renamed although the module evaluates code with input()/execfile()')
    sys.exit(1)
print('no difference')
