"""
Renaming a class changes the mangled spelling of its private (__name) attributes,
so an explicit reference to the mangled name (_Class__name) stops working.

Case 1: rename_globals=True, module level classes.
Case 2: DEFAULT options, classes defined inside a function (renamed by rename_locals).

Run: PYTHONPATH=/tmp/huntwt31/src /venv/bin/python repro.py
"""
import subprocess
import sys

import python_minifier

CASE_GLOBAL = '''
class Base:
    def __init__(self):
        self.__token = 'secret'

class Derived(Base):
    def token(self):
        # the usual way for a subclass (or a test) to reach a private attribute of the base class
        return self._Base__token

print(Derived().token())
'''

CASE_LOCAL = '''
def build():
    class Base:
        def __init__(self):
            self.__token = 'secret'

    class Derived(Base):
        def token(self):
            return self._Base__token

    return Derived

print(build()().token())
'''


def run(code):
    p = subprocess.run([sys.executable, '-c', code], capture_output=True, text=True)
    err = p.stderr.strip().splitlines()
    return p.stdout.strip(), (err[-1] if err else '')


failed = False
for title, source, options in [
    ('rename_globals=True, module level classes', CASE_GLOBAL, {'rename_globals': True}),
    ('default options, classes local to a function', CASE_LOCAL, {}),
]:
    minified = python_minifier.minify(source, **options)
    original_result = run(source)
    minified_result = run(minified)
    print('== ' + title)
    print(minified)
    print('original :', original_result)
    print('minified :', minified_result)
    if original_result != minified_result:
        failed = True

if failed:
    print('DEFECT PRESENT: private attribute of a renamed class is no longer reachable by its mangled name')
    sys.exit(1)
print('no difference')
