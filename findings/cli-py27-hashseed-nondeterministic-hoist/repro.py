"""
On interpreters whose dict is not insertion ordered (Python 2.7, 3.3-3.5) the names given to hoisted literals depend on
the string hash seed, so minify() returns different text for the same input in different processes
(python -R / PYTHONHASHSEED on 2.7; by default on 3.3-3.5 where hash randomisation is on).

Needs /root/.pyenv/versions/2.7.18/bin/python; run this driver with any python:
    PYTHONPATH=/tmp/huntwt24/src /venv/bin/python repro.py
"""
import os
import subprocess
import sys

PY27 = '/root/.pyenv/versions/2.7.18/bin/python'
SRC = (
    "def f(kw):\n"
    "    assert kw in ['alpha_literal', 'beta_literal', 'gamma_literal', 'delta_literal']\n"
    "    if kw in ['alpha_literal', 'beta_literal', 'gamma_literal', 'delta_literal']:\n"
    "        return ['alpha_literal', 'beta_literal', 'gamma_literal', 'delta_literal']\n"
)
CODE = "import sys, python_minifier; sys.stdout.write(python_minifier.minify(%r))" % SRC

outputs = {}
for seed in range(8):
    env = dict(os.environ, PYTHONHASHSEED=str(seed))
    out = subprocess.check_output([PY27, '-c', CODE], env=env)
    outputs.setdefault(out, []).append(seed)

for out, seeds in outputs.items():
    print('PYTHONHASHSEED in %r:' % (seeds,))
    print(out.decode())
    print()

if len(outputs) > 1:
    print('%d different minified outputs for one input' % len(outputs))
    sys.exit(1)
sys.exit(0)
