"""
Parameters that are renamed "in place" (self, cls, *args, **kwargs) get the shortest free
name (A, B, ...). When the function also takes **kwargs, the new name of `self`/`cls` is a
real, keyword-passable parameter name, so a caller that passes a keyword argument spelled
like the new name (A=...) now gets "TypeError: got multiple values for argument 'A'".

Default options. No positional-only syntax involved.

Run: PYTHONPATH=/tmp/huntwt31/src /venv/bin/python repro.py
"""
import subprocess
import sys

import python_minifier

SOURCE = '''
class Params:
    """Free-form parameter bag, e.g. coefficients of A*x + B"""

    def __init__(self, **values):
        self.values = dict(values)

    @classmethod
    def build(cls, **values):
        return cls(**values)

    def updated(self, **changes):
        merged = dict(self.values)
        merged.update(changes)
        return merged


print(sorted(Params(A=1.0, B=2.0).values.items()))
print(sorted(Params.build(A=3.0).values.items()))
print(sorted(Params(B=1).updated(A=5).items()))
'''


def run(code):
    p = subprocess.run([sys.executable, '-c', code], capture_output=True, text=True)
    err = p.stderr.strip().splitlines()
    return p.stdout, (err[-1] if err else '')


minified = python_minifier.minify(SOURCE)
print(minified)
original_result = run(SOURCE)
minified_result = run(minified)
print('original:', original_result)
print('minified:', minified_result)
if original_result != minified_result:
    print('DEFECT PRESENT: keyword argument collides with the new name of self/cls')
    sys.exit(1)
print('no difference')
