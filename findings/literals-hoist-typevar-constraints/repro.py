# Run with python 3.12 or 3.13:  PYTHONPATH=/tmp/huntwt33/src /venv/bin/python repro.py
#
# hoist_literals replaces the string elements of a PEP 695 constraints tuple by names.
# CPython (3.12, 3.13) decides "bound or constraints" at compile time and a tuple made only of
# constants is treated differently from a tuple that contains a name, so T.__bound__ and
# T.__constraints__ of the minified module differ from the original.
import sys
import python_minifier

if sys.version_info < (3, 12):
    print('needs python 3.12+ (PEP 695 syntax)')
    sys.exit(0)

source = '''
class Node[T: ("IntLeaf", "StrLeaf")]:
    kinds = ("IntLeaf", "StrLeaf")

def make[T: ("IntLeaf", "StrLeaf")](x: T) -> T:
    return x

class IntLeaf: pass
class StrLeaf: pass

for obj in (Node, make):
    tv = obj.__type_params__[0]
    print(obj.__name__, 'bound =', tv.__bound__, 'constraints =', tv.__constraints__)
'''

def run(code):
    import io, contextlib
    out = io.StringIO()
    with contextlib.redirect_stdout(out):
        exec(compile(code, 'm', 'exec'), {'__name__': 'm'})
    return out.getvalue()

minified = python_minifier.minify(source)
only_hoist_off = python_minifier.minify(source, hoist_literals=False)

a = run(source)
b = run(minified)
c = run(only_hoist_off)

print('--- minified (default options)')
print(minified)
print('--- original output')
print(a)
print('--- minified output')
print(b)
print('--- output with hoist_literals=False equals original:', a == c)

if a != b:
    print('DEFECT: type parameter bound/constraints changed by hoist_literals')
    sys.exit(1)
print('no difference')
