"""
PYTHONPATH=/tmp/huntwt21/src /venv/bin/python repro.py     (python 3.12+)

Names bound inside the bound / constraints / default expression of a PEP 695 type parameter
(comprehension targets, lambda parameters) are never given a binding, so loads of them are resolved to
a same-named variable of the enclosing function and renamed with it, while the target keeps its name.
"""
import subprocess
import sys
import tempfile

import python_minifier

SOURCE = '''
def outer():
    x = 10
    def f[T: tuple(x for x in (1, 2))](): pass
    class C[U: (lambda x: x + 1)(1)]: pass
    return f.__type_params__[0].__bound__, C.__type_params__[0].__bound__, x
print(outer())
'''


def run(code):
    with tempfile.NamedTemporaryFile('w', suffix='.py', delete=False) as f:
        f.write(code)
    p = subprocess.run([sys.executable, f.name], capture_output=True, text=True)
    return p.returncode, p.stdout, (p.stderr.strip().splitlines() or [''])[-1]


if sys.version_info < (3, 12):
    print('needs python 3.12+'); sys.exit(0)

minified = python_minifier.minify(SOURCE)
original_result = run(SOURCE)
minified_result = run(minified)
print('--- minified source')
print(minified)
print('--- original :', original_result)
print('--- minified :', minified_result)
if original_result != minified_result:
    print('DEFECT: load inside a type parameter bound was renamed, its binding was not')
    sys.exit(1)
print('no difference')
