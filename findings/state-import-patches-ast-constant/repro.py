"""
`import python_minifier` replaces the `n` and `s` properties of the interpreter's own `ast.Constant` class
(python >= 3.12), for every user of the `ast` module in the process.

Run: PYTHONPATH=/tmp/huntwt34/src /venv/bin/python repro.py      (needs python 3.12 or 3.13)
"""
import ast
import sys
import warnings

if sys.version_info < (3, 12):
    print('needs python >= 3.12')
    sys.exit(0)


def deprecation_warnings_for_n():
    node = ast.parse('1').body[0].value
    with warnings.catch_warnings(record=True) as caught:
        warnings.simplefilter('always')
        node.n
    return len(caught)


before_prop = ast.Constant.__dict__.get('n')
before = deprecation_warnings_for_n()

import python_minifier  # noqa: E402

after_prop = ast.Constant.__dict__.get('n')
after = deprecation_warnings_for_n()

print('ast.Constant.n DeprecationWarnings before import: %d, after import: %d' % (before, after))
print('ast.Constant.__dict__["n"] is the stdlib property: before=%r after=%r' % (True, after_prop is before_prop))
if after_prop is not before_prop:
    print('DEFECT: importing python_minifier monkeypatched the stdlib class ast.Constant process-wide')
    sys.exit(1)
print('ok')
