"""
Run with Python 3.12 or 3.13:  PYTHONPATH=/tmp/huntwt21/src /venv/bin/python repro.py
(on <= 3.11 the defect is not visible, the script exits 0)

rename_locals gives a list/set/dict comprehension variable the same short name as a
variable of an outer-outer function that a nested function closes over. On CPython
3.12+ (PEP 709 inlined comprehensions) the nested function then resolves the name to
the (never assigned) hidden comprehension variable of the intermediate function and
raises NameError.
"""
import subprocess
import sys
import tempfile

import python_minifier

SOURCE = '''
def make_formatter(prefix):
    def build(names):
        cleaned = [name.strip() for name in names]
        def fmt(value):
            return prefix + value + prefix
        return cleaned, fmt
    return build

cleaned, fmt = make_formatter('>')([' a ', 'b '])
print(cleaned, fmt('x'))
'''


def run(code):
    with tempfile.NamedTemporaryFile('w', suffix='.py', delete=False) as f:
        f.write(code)
    p = subprocess.run([sys.executable, f.name], capture_output=True, text=True)
    return p.returncode, p.stdout, (p.stderr.strip().splitlines() or [''])[-1]


minified = python_minifier.minify(SOURCE)
original_result = run(SOURCE)
minified_result = run(minified)

print('python', sys.version.split()[0])
print('--- minified source')
print(minified)
print('--- original :', original_result)
print('--- minified :', minified_result)

# Variant (informational, CPython 3.12.0 / 3.12.1 only, rename_globals=True): the comprehension variable gets the
# name of a renamed *global* that a sibling comprehension of the same function uses.
SOURCE2 = '''
def double_value(x): return x * 2
def process(items):
    first = [item + 1 for item in items]
    second = [double_value(entry) for entry in items]
    return first, second
print(process([1, 2]), double_value(1), double_value(2))
'''
minified2 = python_minifier.minify(SOURCE2, rename_globals=True)
print('--- variant 2 minified source')
print(minified2)
print('--- variant 2 original :', run(SOURCE2))
print('--- variant 2 minified :', run(minified2))

if original_result != minified_result:
    print('DEFECT: minified module behaves differently')
    sys.exit(1)
print('no difference')
