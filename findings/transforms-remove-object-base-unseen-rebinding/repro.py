"""
PYTHONPATH=/tmp/huntwt23/src /venv/bin/python repro.py     (3.12 for the type-parameter case; 3.10+ for match)

remove_object_base (default on) keeps an `object` base only when RemoveObject.rebinds_object() sees the name being
rebound.  It looks at Name stores, def/class names, import aliases and function arguments, but `object` can also be
bound by a match capture pattern, an `except ... as object` clause and a PEP 695 type parameter.
"""
import os
import subprocess
import sys
import tempfile

import python_minifier

CASES = {
    'match capture': '''
class Base:
    tag = 'Base'
match Base:
    case object:
        class C(object):
            pass
print(C.__mro__)
''',
    'except as': '''
try:
    raise KeyError('k')
except KeyError as object:
    class C(object):
        pass
print(type(C).__name__)
''',
}
if sys.version_info >= (3, 12):
    CASES['type parameter'] = '''
class K[object]:
    try:
        class C(object):
            pass
        print('class created')
    except TypeError as e:
        print('TypeError', e)
'''


def run(code):
    f = tempfile.NamedTemporaryFile('w', suffix='.py', delete=False)
    f.write(code)
    f.close()
    p = subprocess.run([sys.executable, f.name], stdout=subprocess.PIPE, stderr=subprocess.PIPE, universal_newlines=True)
    os.unlink(f.name)
    return p.returncode, p.stdout, p.stderr.strip().splitlines()[-1:]


bad = 0
for name, src in CASES.items():
    minified = python_minifier.minify(src)
    a, b = run(src), run(minified)
    print('== %s\n%s\noriginal: %r\nminified: %r' % (name, minified, a, b))
    if a != b:
        bad += 1
if bad:
    print('DEFECT: %d case(s) differ with default options' % bad)
    sys.exit(1)
print('no difference')
