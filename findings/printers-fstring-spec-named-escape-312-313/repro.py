# Run: PYTHONPATH=/tmp/huntwt22/src /venv/bin/python repro.py                               (3.12.1)
#  or: PYTHONPATH=/tmp/huntwt22/src /root/.pyenv/versions/3.13.0/bin/python repro.py          (3.13.0)
#
# A \N{...} escape in an f-string format spec (e.g. a named fill character) gives an AST shape on CPython 3.12 and
# 3.13 that the f-string printer cannot reproduce, so minify() raises.  3.6 - 3.11 are fine.
import ast
import sys
import python_minifier

CASES = [
    "print(f'{5:\\N{DIGIT ZERO}>4}')\n",                           # 3.12.1 and 3.13.0
    "title = 'x'\nprint(f'{title:\\N{EM DASH}^9}')\n",            # 3.12.1 and 3.13.0
    "print(f'{5:\\N{DIGIT ZERO}}')\n",                             # 3.12.1
    "print(f'{5:{{4}.pop()}}')\n",                                 # 3.12.1 (nested field whose expression starts with a brace)
]
bad = 0
for src in CASES:
    exec(compile(src, 'original', 'exec'), {})
    fv = [n for n in ast.walk(ast.parse(src)) if isinstance(n, ast.FormattedValue) and n.format_spec is not None][0]
    try:
        out = python_minifier.minify(src)
        print('ok      %r -> %r' % (src, out))
    except Exception as e:
        bad += 1
        print('DEFECT  %r: minify() raised %s: %s\n        format_spec = %s' % (src, type(e).__name__, e, ast.dump(fv.format_spec)))
if not bad:
    print('not reproduced on this interpreter (%s)' % sys.version.split()[0])
sys.exit(1 if bad else 0)
