# Run: PYTHONPATH=/tmp/huntwt22/src /venv/bin/python repro.py      (any python 3.6 - 3.13 shows it)
#
# An empty f-string (f'') nested inside the replacement field of another f-string makes minify() raise.
import sys
import python_minifier

CASES = [
    "sep = f'{f\"\"}'\nprint(repr(sep))\n",
    "def tag(name, attrs):\n    return f'<{name}{f\" {attrs}\" if attrs else f\"\"}>'\nprint(tag('a', ''), tag('a', 'b=1'))\n",
    "x = 3\nprint(f'{x:{f\"\"}}')\n",
]
bad = 0
for src in CASES:
    exec(compile(src, 'original', 'exec'), {})      # the interpreter compiles and runs it
    try:
        out = python_minifier.minify(src)
    except Exception as e:
        bad += 1
        print('DEFECT minify() raised %s: %s\n   for %r' % (type(e).__name__, e, src))
        continue
    print('ok', repr(out))
# the outermost empty f-string is handled
print('outer empty f-string ->', repr(python_minifier.minify("x = f''")))
sys.exit(1 if bad else 0)
