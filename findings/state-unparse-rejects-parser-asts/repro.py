"""
python_minifier.unparse(module) raises UnstableMinification ("This should never occur and is a bug") or
RuntimeError for ast.Module objects that ast.parse() itself produces and compile() accepts.

Run: PYTHONPATH=/tmp/huntwt34/src /venv/bin/python repro.py
(the optimize=1 case needs python 3.13: PYTHONPATH=/tmp/huntwt34/src /root/.pyenv/versions/3.13.0/bin/python repro.py)
"""
import ast
import sys

import python_minifier

trees = [
    ('ast.parse(src, type_comments=True), "# type:" comment',
     lambda: ast.parse('x = []  # type: list[int]\n', type_comments=True)),
    ('ast.parse(src, type_comments=True), "# type: ignore"',
     lambda: ast.parse('x = 1  # type: ignore\n', type_comments=True)),
    ('hand-built Module(body=[...]) without type_ignores',
     lambda: ast.fix_missing_locations(ast.Module(body=[ast.Pass()]))),
    ('Constant(-1) (what ast optimisers / literal builders emit)',
     lambda: ast.fix_missing_locations(ast.Module(body=[ast.Expr(ast.Constant(-1))], type_ignores=[]))),
    ('Constant(1+2j)',
     lambda: ast.fix_missing_locations(ast.Module(body=[ast.Expr(ast.Constant(1 + 2j))], type_ignores=[]))),
]
if sys.version_info >= (3, 13):
    trees.append(('ast.parse(src, optimize=1) (3.13+)', lambda: ast.parse('x = (1, 2)\ny = -1\n', optimize=1)))

bad = 0
for label, make in trees:
    tree = make()
    compile(tree, 'tree', 'exec')  # all of these are accepted by the interpreter
    try:
        print('ok   %-62s -> %r' % (label, python_minifier.unparse(tree)))
    except Exception as e:
        bad += 1
        detail = getattr(e, 'exception', e)
        print('FAIL %-62s -> %s (%s)' % (label, type(e).__name__, str(detail)[:90]))

if bad:
    print('DEFECT: unparse() rejected %d valid module trees' % bad)
    sys.exit(1)
