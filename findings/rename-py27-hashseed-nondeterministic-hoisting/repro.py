"""
Needs the python 2.7 interpreter (also driven from any python):
    PYTHONPATH=/tmp/huntwt21/src /venv/bin/python repro.py

Under python 2.7 with hash randomisation (python -R / PYTHONHASHSEED=<n>), minify() returns different
text for the same input from run to run: the names given to hoisted literals depend on dict order.
"""
import os
import subprocess
import sys

PY27 = '/root/.pyenv/versions/2.7.18/bin/python'

CHILD = r'''
import python_minifier
src = """
def f():
    return ['alpha', 'alpha', 'beta', 'beta', 'gamma', 'gamma', 'delta', 'delta']
"""
print(python_minifier.minify(src))
'''

outputs = {}
for seed in ('1', '2', '3', '4'):
    env = dict(os.environ, PYTHONHASHSEED=seed, PYTHONPATH='/tmp/huntwt21/src')
    out = subprocess.check_output([PY27, '-c', CHILD], env=env).decode()
    outputs[seed] = out
    print('PYTHONHASHSEED=%s -> %s' % (seed, out.strip()))

if len(set(outputs.values())) > 1:
    print('DEFECT: %d different results for the same input' % len(set(outputs.values())))
    sys.exit(1)
print('no difference')
