# Run: PYTHONPATH=/tmp/huntwt22/src /venv/bin/python repro.py      (any python 3.6 - 3.13 shows it)
#
# Literal text inside an f-string *format spec* is written out verbatim by
# python_minifier.f_string.FormatSpec.str_for (only '{' / '}' are doubled, and that doubling is itself wrong
# inside a format spec).  Any spec text that needs an escape therefore either makes minify() raise
# ValueError('Unable to create representation for f-string') or produces output with an invalid escape sequence.
import sys
import warnings

import python_minifier

CASES = [
    # (description, source)
    ('backslash + n in spec (strftime-like)', "import datetime\nd = datetime.date(2020, 1, 2)\nprint(f'{d:%Y\\\\n%m}')\n"),
    ('raw f-string, backslash-n spec',        "import datetime\nd = datetime.date(2020, 1, 2)\nprint(rf'{d:%Y\\n%m}')\n"),
    ("'{' as fill character",                 "print(f'{5:\\x7b>4}')\n"),
    ("'}' as fill character",                 "print(f'{5:\\x7d>4}')\n"),
    ('NUL as fill character',                 "print(repr(f'{5:\\x00>4}'))\n"),
    ('backslash and both quotes in spec',     "class C:\n    def __format__(self, s): return s\nprint(f'{C():\\\\\\'\"}')\n"),
]
# these do not raise, but the output contains an invalid escape sequence the original did not have
WARN_CASES = [
    ('backslash as fill character',           "print(f'{5:\\\\>4}')\n"),
    ('raw f-string, \\d in spec',             "class C:\n    def __format__(self, s): return s\nprint(rf'{C():\\d}')\n"),
]

bad = 0
for desc, src in CASES:
    compile(src, 'original', 'exec')   # the interpreter accepts it
    try:
        with warnings.catch_warnings():
            warnings.simplefilter('ignore')
            out = python_minifier.minify(src)
    except Exception as e:
        bad += 1
        print('DEFECT  %-40s minify() raised %s: %s' % (desc, type(e).__name__, e))
        continue
    print('ok      %-40s %r' % (desc, out))

for desc, src in WARN_CASES:
    try:
        with warnings.catch_warnings():
            warnings.simplefilter('error')
            compile(src, 'original', 'exec')   # no warning of any kind from the original
    except SyntaxError:
        # CPython 3.12.0/3.12.1 wrongly warn about escapes in the format spec of a *raw* f-string; skip there
        print('skipped %-40s (this interpreter warns about the original too)' % desc)
        continue
    with warnings.catch_warnings():
        warnings.simplefilter('ignore')
        out = python_minifier.minify(src)
    try:
        with warnings.catch_warnings():
            warnings.simplefilter('error')
            compile(out, 'minified', 'exec')
        print('ok      %-40s %r' % (desc, out))
    except SyntaxError as e:
        bad += 1
        print('DEFECT  %-40s minified %r does not compile under -W error: %s' % (desc, out, e.msg))

sys.exit(1 if bad else 0)
