"""
PYTHONPATH=/tmp/huntwt21/src /venv/bin/python repro.py

rename_globals=True: names listed as literal strings in __all__ are only preserved when
__all__ is assigned a *list display* in a top-level statement. A tuple (very common),
or an assignment nested in if/try, is ignored and the exported names are renamed.
"""
import sys
import types

import python_minifier

CASES = {
    'tuple': '''
__all__ = ('public_function', 'PublicClass')
def public_function(): return 1
class PublicClass: pass
''',
    'list inside if': '''
import sys
if sys.version_info >= (3,):
    __all__ = ['public_function', 'PublicClass']
def public_function(): return 1
class PublicClass: pass
''',
    'list (control)': '''
__all__ = ['public_function', 'PublicClass']
def public_function(): return 1
class PublicClass: pass
''',
}

failed = False
for label, source in CASES.items():
    minified = python_minifier.minify(source, rename_globals=True)
    module = types.ModuleType('m')
    exec(minified, module.__dict__)
    missing = [name for name in module.__all__ if not hasattr(module, name)]
    print('%-16s __all__=%r missing=%r' % (label, module.__all__, missing))
    if missing:
        print(minified)
        failed = True

if failed:
    print('DEFECT: names that are literal strings in __all__ were renamed (from m import * -> AttributeError)')
    sys.exit(1)
print('no difference')
