"""
minify() only runs the parser (ast.parse). Every error the interpreter reports in its later compile stages
(symbol table, code generator, __future__ checks) is missed: such modules are minified without complaint,
a few of them come out as *valid* modules, and one trips an internal assert instead of a SyntaxError.

Run: PYTHONPATH=/tmp/huntwt34/src /venv/bin/python repro.py
"""
import sys

import python_minifier

cases = [
    "return 1",
    "def f(a, a): pass",
    "def f():\n    x = 1\n    global x",
    "def f():\n    nonlocal missing",
    "x = 1\nfrom __future__ import division",
    "from __future__ import no_such_feature",
    "*a, *b = c",
    "f(a=1, a=2)",
    "while 1:\n    def f(): break",
    "async def f():\n    yield 1\n    return 2",
    "match x:\n    case a: pass\n    case b: pass",
    # becomes a valid module:
    "def f():\n    global x\n    x: int = 1",
    "def f():\n    x: int\n    global x",
    "x: (yield) = 1",
    # internal error instead of SyntaxError:
    "def f(x):\n    nonlocal x",
]

accepted = became_valid = other_exception = 0
for source in cases:
    try:
        compile(source, 'source', 'exec')
        raise SystemExit('test case is valid?? %r' % source)
    except SyntaxError as e:
        expected = 'SyntaxError: %s' % e.msg
    try:
        minified = python_minifier.minify(source)
    except SyntaxError:
        print('ok   %-48r both raise SyntaxError' % source)
        continue
    except Exception as e:
        other_exception += 1
        print('DIFF %-48r interpreter: %s; minify raises %s' % (source, expected, type(e).__name__))
        continue
    accepted += 1
    try:
        compile(minified, 'minified', 'exec')
        became_valid += 1
        print('DIFF %-48r interpreter: %s; minify returns %r WHICH COMPILES' % (source, expected, minified))
    except SyntaxError:
        print('DIFF %-48r interpreter: %s; minify returns %r' % (source, expected, minified))

print('%d invalid modules accepted (%d of them turned into valid modules), %d raised something other than SyntaxError'
      % (accepted, became_valid, other_exception))
if accepted or other_exception:
    sys.exit(1)
