"""
pyminify rejects `--remove-class-attribute-annotations --no-remove-annotations` ("would do nothing") but silently
accepts the other combinations of exactly the same kind, and an empty --output value.

Run: PYTHONPATH=/tmp/huntwt24/src /venv/bin/python repro.py
"""
import os
import subprocess
import sys
import tempfile

SRC = b'def function(long_argument_name: int) -> int:\n    value: int = long_argument_name + 1\n    return value\n'

COMBOS = [
    # the one combination the tool does reject, as a control
    (['--remove-class-attribute-annotations', '--no-remove-annotations'], True),
    # same class: the second flag cannot have any effect because of the first
    (['--no-remove-annotations', '--no-remove-variable-annotations'], False),
    (['--no-remove-annotations', '--no-remove-return-annotations'], False),
    (['--no-remove-annotations', '--no-remove-argument-annotations'], False),
    (['--preserve-globals', 'function'], False),                       # without --rename-globals
    (['--no-rename-locals', '--preserve-locals', 'value'], False),
    # empty output path: falls through `if args.output:` and writes to stdout instead of failing
    (['--output', ''], False),
]

tmp = tempfile.mkdtemp()
path = os.path.join(tmp, 'm.py')
with open(path, 'wb') as f:
    f.write(SRC)

env = dict(os.environ)
env.pop('PYMINIFY_FORCE_BEST_EFFORT', None)

defect = False
for flags, is_control in COMBOS:
    p = subprocess.run([sys.executable, '-m', 'python_minifier', path] + flags, capture_output=True, env=env)
    verdict = 'rejected' if p.returncode != 0 else 'ACCEPTED (exit 0, %d bytes on stdout)' % len(p.stdout)
    print('%-75s %s' % (' '.join(flags) or '(none)', verdict))
    if not is_control and p.returncode == 0:
        defect = True

os.unlink(path)
os.rmdir(tmp)
sys.exit(1 if defect else 0)
