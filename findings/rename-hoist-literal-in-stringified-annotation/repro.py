"""
PYTHONPATH=/tmp/huntwt21/src /venv/bin/python repro.py     (python 3.7+)

hoist_literals replaces string literals inside *kept* annotations (class attribute annotations are kept
by default) with variable names. With `from __future__ import annotations` the annotation is stored as
source text, so "Literal['read-only', 'read-write']" becomes "Literal[A, B]"; when the class is defined
inside a function, A and B are function locals and the annotation can no longer be evaluated.
"""
import subprocess
import sys
import tempfile

import python_minifier

SOURCE = '''
from __future__ import annotations
import dataclasses
import typing

def make_config_class():
    @dataclasses.dataclass
    class Config:
        mode: typing.Literal['read-only', 'read-write'] = 'read-only'
        fallback: typing.Literal['read-only', 'read-write'] = 'read-write'
    return Config

Config = make_config_class()
print(Config.__annotations__['mode'])
print(typing.get_type_hints(Config))
'''


def run(code):
    with tempfile.NamedTemporaryFile('w', suffix='.py', delete=False) as f:
        f.write(code)
    p = subprocess.run([sys.executable, f.name], capture_output=True, text=True)
    return p.returncode, p.stdout, (p.stderr.strip().splitlines() or [''])[-1]


minified = python_minifier.minify(SOURCE)
original_result = run(SOURCE)
minified_result = run(minified)
print('--- minified source')
print(minified)
print('--- original :', original_result)
print('--- minified :', minified_result)
if original_result != minified_result:
    print('DEFECT: hoisting rewrote the text of a stringified annotation')
    sys.exit(1)
print('no difference')
