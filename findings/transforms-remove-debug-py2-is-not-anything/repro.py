"""
Python 2.7 only:  PYTHONPATH=/tmp/huntwt23/src /root/.pyenv/versions/2.7.18/bin/python repro.py

remove_debug=True removes `if __debug__ is not <anything except the name True>:` on Python 2.7 / < 3.4,
e.g. `if __debug__ is not None:` - a condition that is TRUE under `python -O`, so the body must be kept.
"""
from __future__ import print_function
import subprocess
import sys
import tempfile
import os

import python_minifier

if sys.version_info >= (3, 4):
    print('needs python 2.7 (the defect is in the sys.version_info < (3, 4) branch)')
    sys.exit(0)

SRC = '''
if __debug__ is not None:
    print('runs with and without -O')
if __debug__ is not 0:
    print('also always runs')
flag = 5
if __debug__ is not flag:
    print('also always runs (compared with a variable)')
'''

minified = python_minifier.minify(SRC, remove_debug=True)
print('minified:', repr(minified))


def run(code):
    f = tempfile.NamedTemporaryFile('w', suffix='.py', delete=False)
    f.write(code)
    f.close()
    p = subprocess.Popen([sys.executable, '-O', f.name], stdout=subprocess.PIPE, stderr=subprocess.PIPE)
    out, err = p.communicate()
    os.unlink(f.name)
    return out.decode()


a = run(SRC)
b = run(minified)
print('original under -O :', repr(a))
print('minified under -O :', repr(b))
if a != b:
    print('DEFECT: remove_debug removed statements that do not test "__debug__ is True" and that run under -O')
    sys.exit(1)
print('no difference')
