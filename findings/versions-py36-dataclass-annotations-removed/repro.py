"""
Python 3.6 only: run as
    PYTHONPATH=/tmp/huntwt32/src /root/.pyenv/versions/3.6.15/bin/python repro.py

remove_annotations=True (or --remove-class-attribute-annotations) is documented to keep the
annotations of classes decorated with dataclass.  Under python 3.6 the check is skipped
(sys.version_info < (3, 7)), although the `dataclasses` backport from PyPI is the normal way to
use dataclasses there.  The repro carries a tiny stand-in for the backport so that it has no
third-party dependency.  Exits 1 when the defect is present.
"""
import subprocess
import sys
import tempfile
import os

import python_minifier

SOURCE = '''
try:
    from dataclasses import dataclass          # stdlib on 3.7+, PyPI backport on 3.6
except ImportError:
    def dataclass(cls):                          # minimal stand-in for the backport
        names = list(cls.__dict__.get('__annotations__', {}))
        def __init__(self, *args):
            for name, value in zip(names, args):
                setattr(self, name, value)
        cls.__init__ = __init__
        cls.__dataclass_fields__ = names
        return cls

@dataclass
class Point:
    x_coord: int = 0
    y_coord: int = 0

p = Point(3, 4)
print(p.x_coord, p.y_coord)
'''


def run(code):
    fd, path = tempfile.mkstemp(suffix='.py')
    os.write(fd, code.encode('utf-8'))
    os.close(fd)
    try:
        p = subprocess.run([sys.executable, path], stdout=subprocess.PIPE, stderr=subprocess.PIPE)
        err = p.stderr.decode().strip().splitlines()
        return p.returncode, p.stdout.decode(), err[-1] if err else ''
    finally:
        os.remove(path)


minified = python_minifier.minify(SOURCE, remove_annotations=True)
print('python %d.%d' % sys.version_info[:2])
print('minified:\n' + minified)
kept = 'x_coord:int' in minified
original_result = run(SOURCE)
minified_result = run(minified)
print('original run:', original_result)
print('minified run:', minified_result)
if not kept or original_result != minified_result:
    print('DEFECT: the fields of a @dataclass class lost their annotations')
    sys.exit(1)
print('annotations of the dataclass were kept')
