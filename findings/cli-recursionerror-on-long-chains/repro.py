"""
python_minifier.minify() raises RecursionError for ordinary flat-looking modules that the interpreter compiles and runs
with the default recursion limit: a string concatenation of ~250 terms, an if/elif ladder of 250-400 branches, a
fluent call chain of ~150 calls. (CPython itself copes with > 2500 terms / branches.)

Run: PYTHONPATH=/tmp/huntwt24/src /venv/bin/python repro.py
"""
import sys
import traceback

import python_minifier

CASES = {
    '300-term string concatenation': 'x = ' + ' + \\\n    '.join('"line %d\\n"' % i for i in range(300)) + '\nprint(len(x))\n',
    '400-branch if/elif ladder': 'import sys\ncode = len(sys.argv)\nif code == 0: name = "zero"\n'
                                 + ''.join('elif code == %d: name = "value %d"\n' % (i, i) for i in range(1, 400))
                                 + 'print(name)\n',
    '200-call fluent chain': 'class B:\n    def add(self, v): return self\nb = B()' + '.add(1)' * 200 + '\nprint(b)\n',
    '300-term sum of names': 'a = 1\ntotal = ' + ' + '.join(['a'] * 300) + '\nprint(total)\n',
}

defect = False
print('recursion limit', sys.getrecursionlimit())
for label, src in CASES.items():
    compile(src, label, 'exec')   # the interpreter is fine with it
    exec(compile(src, label, 'exec'), {'__name__': 'm', 'print': lambda *a: None})
    try:
        python_minifier.minify(src)
        print(label, ': ok')
    except RecursionError:
        defect = True
        tb = traceback.extract_tb(sys.exc_info()[2])
        inner = tb[-1]
        stage = tb[1]
        print('%s: compiles and runs, minify() raised RecursionError (stage: %s line %d, deepest frame %s:%d %s)' % (
            label, stage.line, stage.lineno, inner.filename.split('python_minifier/')[-1], inner.lineno, inner.name))

sys.exit(1 if defect else 0)
