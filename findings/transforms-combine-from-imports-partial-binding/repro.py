"""
combine_imports (default on) merges two adjacent `from pkg import ...` statements.
When the names are submodules and the second one fails to import, the first name is no
longer bound, because `from pkg import sub1, sub2` imports every listed submodule
(importlib._bootstrap._handle_fromlist) before it binds any name.

Run: PYTHONPATH=/tmp/huntwt23/src /venv/bin/python repro.py
"""
import os
import subprocess
import sys
import tempfile

import python_minifier

MAIN = '''try:
    from pkg import sub1
    from pkg import sub2
except ImportError:
    sub2 = None
print(sub1.x, sub2)
'''

d = tempfile.mkdtemp()
os.mkdir(os.path.join(d, 'pkg'))
open(os.path.join(d, 'pkg', '__init__.py'), 'w').close()
with open(os.path.join(d, 'pkg', 'sub1.py'), 'w') as f:
    f.write('x = 1\n')
with open(os.path.join(d, 'pkg', 'sub2.py'), 'w') as f:
    f.write('import an_optional_dependency_that_is_not_installed\n')

minified = python_minifier.minify(MAIN)


def run(name, code):
    path = os.path.join(d, name)
    with open(path, 'w') as f:
        f.write(code)
    p = subprocess.run([sys.executable, path], stdout=subprocess.PIPE, stderr=subprocess.PIPE, universal_newlines=True, cwd=d)
    return p.returncode, p.stdout.strip(), p.stderr.strip().splitlines()[-1:] 


a = run('main.py', MAIN)
b = run('main_min.py', minified)
print('minified source:\n' + minified + '\n')
print('original :', a)
print('minified :', b)
if a != b:
    print('DEFECT: behaviour differs with default options')
    sys.exit(1)
print('no difference')
