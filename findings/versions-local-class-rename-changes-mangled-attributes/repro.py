"""
Any interpreter (2.7, 3.6 ... 3.13); run as
    PYTHONPATH=/tmp/huntwt32/src /venv/bin/python repro.py

Renaming a class that is local to a function changes the mangled spelling of every `__private`
attribute used inside it (`_Account__balance` -> `_A__balance`), so attribute names - which the
minifier must never change - do change.  Exits 1 when the defect is present.
"""
from __future__ import print_function

import os
import subprocess
import sys
import tempfile

import python_minifier

SOURCE = '''
def make():
    class Base(object):
        def __init__(self):
            self.__secret = 41

    class Child(Base):
        def peek(self):
            # the usual way to reach a private attribute of a base class
            return self._Base__secret + 1

    return Child()

obj = make()
print(sorted(obj.__dict__))
print(obj.peek())
'''


def run(code):
    fd, path = tempfile.mkstemp(suffix='.py')
    os.write(fd, code if isinstance(code, bytes) else code.encode('utf-8'))
    os.close(fd)
    try:
        p = subprocess.Popen([sys.executable, path], stdout=subprocess.PIPE, stderr=subprocess.PIPE)
        out, err = p.communicate()
        err = err.decode('utf-8', 'replace').strip().splitlines()
        return p.returncode, out.decode('utf-8', 'replace'), err[-1] if err else ''
    finally:
        os.remove(path)


minified = python_minifier.minify(SOURCE)
print('minified:\n' + minified)
original_result = run(SOURCE)
minified_result = run(minified)
print('original run:', original_result)
print('minified run:', minified_result)
if original_result != minified_result:
    print('DEFECT: private attribute names changed with the (local) class name')
    sys.exit(1)
print('no difference')
