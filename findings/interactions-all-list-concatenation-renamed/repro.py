"""
rename_globals=True renames names that are listed as literal strings in __all__ when the
list is built by concatenation / extend / append instead of one plain list display.

Run: PYTHONPATH=/tmp/huntwt31/src /venv/bin/python repro.py
"""
import sys
import types

import python_minifier

SOURCE = '''
_extra = ['helper_three']
__all__ = ['helper_one', 'helper_two'] + _extra      # literal list + another list (very common in package __init__ files)
__all__.extend(['helper_four'])
__all__.append('helper_five')

def helper_one(): return 1
def helper_two(): return 2
def helper_three(): return 3
def helper_four(): return 4
def helper_five(): return 5
'''


def star_import(code):
    module = types.ModuleType('minified_module')
    exec(compile(code, 'minified_module', 'exec'), module.__dict__)
    sys.modules['minified_module'] = module
    namespace = {}
    try:
        exec('from minified_module import *', namespace)
    except Exception as e:
        return '%s: %s' % (type(e).__name__, e)
    finally:
        del sys.modules['minified_module']
    return sorted(k for k in namespace if k != '__builtins__')


minified = python_minifier.minify(SOURCE, rename_globals=True)
print(minified)
original_result = star_import(SOURCE)
minified_result = star_import(minified)
print('original  from m import * ->', original_result)
print('minified  from m import * ->', minified_result)

if original_result != minified_result:
    print('DEFECT PRESENT: names listed in __all__ were renamed')
    sys.exit(1)
print('no difference')
