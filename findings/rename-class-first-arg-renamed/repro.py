"""
PYTHONPATH=/tmp/huntwt21/src /venv/bin/python repro.py

rename_locals renames, in the signature, the first parameter of every undecorated function
defined in a class body - whatever it is called - so keyword calls stop working.
"""
import subprocess
import sys
import tempfile

import python_minifier

SOURCE = '''
class Units:
    def convert(value, factor=1000):
        return value * factor
    convert = staticmethod(convert)          # pre-decorator spelling, still common in old code

class Helpers:
    def scale(value, factor=2):              # plain function used through the class (python 3)
        return value * factor

print(Units.convert(value=2))
print(Units().convert(value=3, factor=10))
print(Helpers.scale(value=5))
'''


def run(code):
    with tempfile.NamedTemporaryFile('w', suffix='.py', delete=False) as f:
        f.write(code)
    p = subprocess.run([sys.executable, f.name], capture_output=True, text=True)
    return p.returncode, p.stdout, (p.stderr.strip().splitlines() or [''])[-1]


minified = python_minifier.minify(SOURCE)
original_result = run(SOURCE)
minified_result = run(minified)
print('--- minified source')
print(minified)
print('--- original :', original_result)
print('--- minified :', minified_result)
if original_result != minified_result:
    print('DEFECT: keyword argument name of a class-level function was changed')
    sys.exit(1)
print('no difference')
