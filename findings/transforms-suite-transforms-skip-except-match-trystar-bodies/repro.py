"""
PYTHONPATH=/tmp/huntwt23/src /venv/bin/python repro.py        (3.11+ for except*, 3.10+ for match)
Also reproduces on 2.7 for plain try/except/finally bodies (see notes.md).

remove_asserts / remove_debug / remove_literal_statements (and remove_pass, combine_imports) do nothing inside
`except` handler bodies, `match` case bodies, and the whole of a `try ... except*` statement.
"""
import ast
import sys

import python_minifier

SRC = '''
def f(x):
    try:
        work()
    except Exception:
        assert handler_assert()
        if __debug__:
            handler_debug()
        "handler literal"
    try:
        assert trystar_body_assert()
        if __debug__:
            trystar_body_debug()
    except* ValueError:
        assert trystar_handler_assert()
    match x:
        case 1:
            assert case_assert()
            if __debug__:
                case_debug()
            "case literal"
'''

minified = python_minifier.minify(SRC, remove_asserts=True, remove_debug=True, remove_literal_statements=True)
print(minified)

tree = ast.parse(minified)
left = []
for node in ast.walk(tree):
    if isinstance(node, ast.Assert):
        left.append('assert ' + ast.unparse(node.test))
    elif isinstance(node, ast.If) and isinstance(node.test, ast.Name) and node.test.id == '__debug__':
        left.append('if __debug__: ' + ast.unparse(node.body[0]))
    elif isinstance(node, ast.Expr) and isinstance(node.value, ast.Constant) and isinstance(node.value.value, str):
        left.append('literal ' + repr(node.value.value))

if left:
    print('\nDEFECT: statements the enabled options are documented to remove are still present:')
    for item in left:
        print('   ', item)
    sys.exit(1)
print('all removed')
