# Run: PYTHONPATH=/tmp/huntwt22/src /venv/bin/python repro.py      (python 3.6 - 3.13; worst on 3.12+)
#
# The f-string printer builds the cartesian product of quote choices of every nested f-string, so minify()
# time (and memory) grows exponentially with the number of nested f-strings in one f-string, and with the
# nesting depth.  A dozen nested f-strings is enough to make minify() run for hours / exhaust memory.
import subprocess
import sys
import time

def source(n):
    # f'{f"{a0}"}{f"{a1}"}...'  - n replacement fields, each holding a tiny nested f-string
    return "x = f'" + ''.join('{f"{a%d}"}' % i for i in range(n)) + "'\n"

CHILD = r'''
import sys, time
import python_minifier
src = sys.stdin.read()
compile(src, 'original', 'exec')
t = time.time()
python_minifier.minify(src)
print(time.time() - t)
'''

def timed(n, timeout):
    try:
        p = subprocess.run([sys.executable, '-W', 'ignore', '-c', CHILD], input=source(n).encode(), stdout=subprocess.PIPE, timeout=timeout)
        return float(p.stdout.decode().strip().splitlines()[-1])
    except subprocess.TimeoutExpired:
        return None

bad = False
prev = None
for n in (2, 4, 5, 6, 7, 8, 9, 10):
    t = timed(n, 120)
    if t is None:
        print('%2d nested f-strings in one f-string (%d characters of source): minify() did not finish in 120 s' % (n, len(source(n))))
        bad = True
        break
    print('%2d nested f-strings in one f-string (%d characters of source): minify() took %.2f s%s' % (
        n, len(source(n)), t, '' if not prev or prev < 0.05 else '   (x%.1f)' % (t / prev)))
    if t > 5:
        bad = True
    if t > 30:
        break
    prev = t
if bad:
    print('DEFECT: exponential blow-up; each additional nested f-string multiplies the time (by ~5 on 3.12+, ~3 before)')
sys.exit(1 if bad else 0)
