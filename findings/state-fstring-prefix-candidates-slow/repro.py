"""
An f-string with n replacement fields makes the printer generate and re-parse 8n candidate strings
(every *prefix* of the f-string, for each of the 4 quote styles), each O(n) long.

Run: PYTHONPATH=/tmp/huntwt34/src /venv/bin/python repro.py
"""
import sys
import time

import python_minifier
import python_minifier.f_string as f_string

# count the candidate parses
parses = [0]
original_is_correct_ast = f_string.FString.is_correct_ast


def counting(self, code):
    parses[0] += 1
    return original_is_correct_ast(self, code)


f_string.FString.is_correct_ast = counting

rows = []
for n in (60, 120, 240, 480):
    source = 'x = f"' + 'a{x}' * n + '"\n'
    parses[0] = 0
    t = time.process_time()
    out = python_minifier.minify(source)
    dt = time.process_time() - t
    t = time.process_time()
    compile(source, 's', 'exec')
    ct = time.process_time() - t
    rows.append((n, len(source), parses[0], dt, ct))
    print('fields=%4d  source=%5d bytes  candidate parses=%5d  minify cpu=%7.2fs  (interpreter compile %.4fs)' % rows[-1])

n0, _, p0, t0, _ = rows[0]
n1, _, p1, t1, _ = rows[-1]
import math
print('time grew x%.0f for x%d input: empirical exponent %.2f' % (t1 / t0, n1 // n0, math.log(t1 / t0) / math.log(n1 / n0)))
if p1 >= 8 * n1:
    print('DEFECT: %d candidate strings were parsed for one f-string with %d fields (4 would do)' % (p1, n1))
    sys.exit(1)
print('ok')
