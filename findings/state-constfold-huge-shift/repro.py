"""
Constant folding evaluates `<int> << <int>` with no bound on the result size.
A 47-byte module makes minify() allocate 2**n bits; every extra digit in the literal multiplies
memory and time by ten.  CPython's own compiler refuses to fold such shifts and compiles the module instantly.

Run: PYTHONPATH=/tmp/huntwt34/src /venv/bin/python repro.py
(uses about 250 MB for a moment; set BITS in the environment to change the shift count)
"""
import os
import resource
import sys
import time

import python_minifier

bits = int(os.environ.get('BITS', '2000000000'))
source = 'def never_called():\n    return 1 << %d\n' % bits


def maxrss_mb():
    return resource.getrusage(resource.RUSAGE_SELF).ru_maxrss // 1024


t = time.time()
compile(source, 'source', 'exec')
compile_time = time.time() - t
before = maxrss_mb()

t = time.time()
minified = python_minifier.minify(source)
minify_time = time.time() - t
after = maxrss_mb()

print('source (%d bytes): %r' % (len(source), source))
print('interpreter compile(): %.4fs' % compile_time)
print('minify():              %.2fs, peak RSS %d MB -> %d MB' % (minify_time, before, after))
print('minify(constant_folding=False) for comparison:')
t = time.time()
python_minifier.minify(source, constant_folding=False)
print('                       %.4fs' % (time.time() - t))

if after - before > bits // 8 // 1024 // 1024 // 2:
    print('DEFECT: minify() materialised the %d MB integer that the module never computes' % (bits // 8 // 1024 // 1024))
    sys.exit(1)
print('ok')
