"""
pyminify <dir> --in-place follows directory symlinks (os.walk(followlinks=True)) with no cycle detection
and no containment check.

1. A symlink that points back into the tree (here `pkg/loop -> .`) makes the walk descend
   pkg/loop/loop/loop/... until the kernel refuses (ELOOP, 40 levels); every module is re-minified once per
   level and the command then dies with an OSError traceback, exit status 1.
2. A symlink that points out of the tree (here `pkg/vendored -> ../outside`) makes --in-place rewrite
   files that are not under the directory that was named on the command line.

Run: PYTHONPATH=/tmp/huntwt24/src /venv/bin/python repro.py
"""
import os
import shutil
import subprocess
import sys
import tempfile

SRC = b'def function(long_argument_name):\n    return long_argument_name + 1\n\n\n'

tmp = tempfile.mkdtemp()
defect = False
try:
    pkg = os.path.join(tmp, 'pkg')
    outside = os.path.join(tmp, 'outside')
    os.mkdir(pkg)
    os.mkdir(outside)
    with open(os.path.join(pkg, 'a.py'), 'wb') as f:
        f.write(SRC)
    with open(os.path.join(outside, 'not_mine.py'), 'wb') as f:
        f.write(SRC)

    env = dict(os.environ)
    env.pop('PYMINIFY_FORCE_BEST_EFFORT', None)

    # --- 2. symlink out of the tree
    os.symlink(os.path.join('..', 'outside'), os.path.join(pkg, 'vendored'))
    p = subprocess.run([sys.executable, '-m', 'python_minifier', 'pkg', '--in-place'], cwd=tmp, env=env, capture_output=True)
    with open(os.path.join(outside, 'not_mine.py'), 'rb') as f:
        after = f.read()
    if after != SRC:
        defect = True
        print('pyminify pkg --in-place rewrote a file outside pkg/: outside/not_mine.py %d -> %d bytes' % (len(SRC), len(after)))
    os.unlink(os.path.join(pkg, 'vendored'))

    # --- 1. symlink loop
    os.symlink('.', os.path.join(pkg, 'loop'))
    os.symlink('a.py', os.path.join(pkg, 'alias.py'))  # one more link level: open() fails with ELOOP at the deepest level
    p = subprocess.run([sys.executable, '-m', 'python_minifier', 'pkg', '--in-place'], cwd=tmp, env=env, capture_output=True)
    listed = p.stdout.decode().splitlines()
    print('with pkg/loop -> . : exit status %d, %d paths processed for 1 real module (+1 alias)' % (p.returncode, len(listed)))
    if p.returncode != 0:
        defect = True
        print('stderr tail:', p.stderr.decode().strip().splitlines()[-1][:120], '...')
    if len(listed) > 1:
        defect = True
finally:
    shutil.rmtree(tmp)

sys.exit(1 if defect else 0)
