"""
rename_globals=True (and awslambda(entrypoint=...), and pyminify --rename-globals) rename names that are listed as
literal strings in __all__ when __all__ is a tuple, or a list assigned inside if/try at module level.

docs/source/transforms/rename_globals.rst: "If a name is included as a literal string in __all__, renaming of that
name is disabled".

Run: PYTHONPATH=/tmp/huntwt24/src /venv/bin/python repro.py
"""
import sys
import types

import python_minifier

CASES = {
    'tuple': (
        "__all__ = ('public_function', 'PublicClass')\n"
        "def public_function(): return 1\n"
        "class PublicClass: pass\n"
    ),
    'tuple without parentheses': (
        "__all__ = 'public_function', 'PublicClass'\n"
        "def public_function(): return 1\n"
        "class PublicClass: pass\n"
    ),
    'list inside if': (
        "import sys\n"
        "if sys.platform == 'win32':\n"
        "    __all__ = ['public_function']\n"
        "else:\n"
        "    __all__ = ['public_function', 'PublicClass']\n"
        "def public_function(): return 1\n"
        "class PublicClass: pass\n"
    ),
    'list inside try': (
        "try:\n"
        "    import json\n"
        "    __all__ = ['public_function', 'PublicClass']\n"
        "except ImportError:\n"
        "    __all__ = ['public_function']\n"
        "def public_function(): return 1\n"
        "class PublicClass: pass\n"
    ),
    'control: plain list': (
        "__all__ = ['public_function', 'PublicClass']\n"
        "def public_function(): return 1\n"
        "class PublicClass: pass\n"
    ),
}


def star_import(code, name):
    mod = types.ModuleType(name)
    exec(compile(code, name, 'exec'), mod.__dict__)
    sys.modules[name] = mod
    ns = {}
    try:
        exec('from %s import *' % name, ns)
    except Exception as e:
        return '%s: %s' % (type(e).__name__, e)
    finally:
        del sys.modules[name]
    return sorted(n for n in ns if not n.startswith('__'))


defect = False
for label, src in CASES.items():
    for how, minified in (
        ('minify(rename_globals=True)', python_minifier.minify(src, rename_globals=True)),
        ("awslambda(entrypoint='public_function')", python_minifier.awslambda(src, entrypoint='public_function')),
    ):
        before = star_import(src, 'orig_mod')
        after = star_import(minified, 'mini_mod')
        if before != after:
            defect = True
            print('%-28s %s' % (label, how))
            print('    minified: %r' % minified)
            print('    from m import *   original: %r' % (before,))
            print('    from m import *   minified: %r' % (after,))
        else:
            print('%-28s %s: ok' % (label, how))

sys.exit(1 if defect else 0)
