"""
PYTHONPATH=/tmp/huntwt23/src /venv/bin/python repro.py

minify() raises RecursionError for a module the interpreter compiles without trouble:
an expression with a few hundred chained binary operators (e.g. a long `'...' + '...' + ...` concatenation
or a generated sum).  CPython 3.12 compiles a chain of > 1500 operands at the default recursion limit.
"""
import sys
import traceback

import python_minifier

bad = 0
for n in (250, 600, 1500):
    src = 'TEXT = ' + ' + \\\n    '.join(['"line %d\\n"' % i for i in range(n)]) + '\n'
    compile(src, 'chain', 'exec')   # fine
    for options in ({}, dict(remove_pass=False, combine_imports=False, remove_annotations=False, remove_object_base=False,
                             remove_explicit_return_none=False, constant_folding=False, hoist_literals=False,
                             rename_locals=False, convert_posargs_to_args=False, remove_builtin_exception_brackets=False)):
        label = 'defaults' if not options else 'everything off'
        try:
            python_minifier.minify(src, **options)
            print('%5d operands, %-14s: ok' % (n, label))
        except RecursionError as e:
            frames = traceback.extract_tb(e.__traceback__)
            where = '%s:%s' % (frames[-1].filename.split('/')[-1], frames[-1].name)
            print('%5d operands, %-14s: RecursionError in %s' % (n, label, where))
            bad += 1
if bad:
    print('DEFECT: minify() raised for modules that compile')
    sys.exit(1)
