# Run: PYTHONPATH=/tmp/huntwt22/src /root/.pyenv/versions/2.7.18/bin/python repro.py        (python 2.7 only)
#
# A module docstring written as a bytes literal (b'...') in front of `from __future__ import unicode_literals`
# is printed without its b prefix, so the minified module's __doc__ turns from str into unicode.
from __future__ import print_function
import sys
import python_minifier

if sys.version_info[0] != 2:
    print('python 2.7 only')
    sys.exit(0)

src = (
    "b'''Usage: prog [options]'''\n"
    "from __future__ import unicode_literals\n"
    "import sys\n"
    "kind = type(__doc__).__name__\n"
    "same_type_as_argv = isinstance(__doc__, type(sys.argv[0]))\n"
)

def run(code):
    ns = {'__name__': 'mod'}
    exec(compile(code, 'mod', 'exec', 0, True), ns)
    return ns['kind'], ns['same_type_as_argv'], ns['__doc__']

bad = 0
for name, opts in (('default options', {}),
                   ('everything off', dict(remove_annotations=False, remove_pass=False, combine_imports=False, hoist_literals=False,
                                           rename_locals=False, remove_object_base=False, convert_posargs_to_args=False,
                                           remove_explicit_return_none=False, remove_builtin_exception_brackets=False, constant_folding=False))):
    out = python_minifier.minify(src, **opts)
    a, b = run(src), run(out)
    print('%s:\n   minified  %r' % (name, out))
    print('   original  type(__doc__)=%s   minified type(__doc__)=%s' % (a[0], b[0]))
    if a[:2] != b[:2]:
        bad += 1
        print('   DEFECT: __doc__ changed type')
sys.exit(1 if bad else 0)
