# Run: PYTHONPATH=/tmp/huntwt22/src /venv/bin/python repro.py      (any python 2.7 / 3.6 - 3.13)
#
# A left-nested chain of ~250 binary operators (a long string concatenation, a sum, flag1|flag2|...) makes
# minify() raise RecursionError from the expression printer, although the interpreter compiles the module
# (and even ten times longer ones) without any problem.
import sys
import python_minifier

def chain(n, op='+', term='a'):
    return 'a = 1\nx = ' + op.join([term] * n) + '\nprint(x)\n'

CASES = [
    ('sum of 260 names',                chain(260)),
    ('260 concatenated string pieces',  'x = ' + ' + \\\n    '.join("'line %d\\n'" % i for i in range(260)) + '\nprint(len(x))\n'),
    ('260 or-ed flags',                 chain(260, ' | ')),
    ('260 chained calls',               'def a(*_): return a\nx = a' + '(1)' * 260 + '\n'),
    ('340 chained attribute accesses',  'class A:\n    pass\nA.b = A\nx = A' + '.b' * 340 + '\n'),
]
bad = 0
for desc, src in CASES:
    exec(compile(src, 'original', 'exec'), {})      # fine for the interpreter (default recursion limit)
    try:
        python_minifier.minify(src)
        print('ok      %s' % desc)
    except RuntimeError as e:                        # RecursionError (RuntimeError on 2.7)
        import traceback
        tb = traceback.extract_tb(sys.exc_info()[2])
        last = tb[-1]
        bad += 1
        print('DEFECT  %-34s minify() raised %s in %s:%s (%d frames deep)' % (
            desc, type(e).__name__, last[0].split('/')[-1], last[2], len(tb)))

# how much deeper the interpreter itself goes
if sys.version_info[0] >= 3:
    n = 260
    while n < 2000:
        try:
            compile(chain(n * 2), 'x', 'exec')
            n *= 2
        except (RecursionError, MemoryError, SyntaxError):
            break
    print('the interpreter itself compiles a chain of at least %d terms' % n)
sys.exit(1 if bad else 0)
