# Run: PYTHONPATH=/tmp/huntwt22/src /venv/bin/python repro.py      (needs python >= 3.12, /venv is 3.12)
#
# PEP 701 (3.12+) allows backslashes inside replacement fields, so a *nested f-string* may have escapes in its
# literal text.  The nested f-string printer (f_string.FString.str_for) writes that text verbatim.
import sys
import warnings
import python_minifier

if sys.version_info < (3, 12):
    print('needs python 3.12+ (before PEP 701 such sources do not compile)')
    sys.exit(0)

RAISES = [
    ('backslash-n text in nested f-string', "rows = [1, 2]\nprint(f\"{''.join(f'{r}\\\\n' for r in rows)}\")\n"),
    ('CR LF in nested f-string',            "rows = [1, 2]\nprint(repr(f\"{''.join(f'{r}\\r\\n' for r in rows)}\"))\n"),
    ('trailing backslash in nested',        "d = 'tmp'\nprint(f\"{f'C:\\\\{d}\\\\'}\")\n"),
    ('NUL in nested f-string',              "k = 1\nprint(repr(f\"{f'{k}\\0'}\"))\n"),
]
WARNS = [
    ('backslash before a field in nested',  "d = 'tmp'\nprint(f\"{f'C:\\\\{d}'}\")\n"),
]
bad = 0
for desc, src in RAISES:
    exec(compile(src, 'original', 'exec'), {})
    try:
        with warnings.catch_warnings():
            warnings.simplefilter('ignore')
            out = python_minifier.minify(src)
    except Exception as e:
        bad += 1
        print('DEFECT  %-38s minify() raised %s: %s' % (desc, type(e).__name__, e))
        continue
    print('ok      %-38s %r' % (desc, out))
for desc, src in WARNS:
    with warnings.catch_warnings():
        warnings.simplefilter('error')
        compile(src, 'original', 'exec')
    with warnings.catch_warnings():
        warnings.simplefilter('ignore')
        out = python_minifier.minify(src)
    try:
        with warnings.catch_warnings():
            warnings.simplefilter('error')
            compile(out, 'minified', 'exec')
        print('ok      %-38s %r' % (desc, out))
    except SyntaxError as e:
        bad += 1
        print('DEFECT  %-38s minified %r has a new invalid escape: %s' % (desc, out, e.msg))
sys.exit(1 if bad else 0)
