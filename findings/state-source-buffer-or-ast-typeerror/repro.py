"""
minify() accepts the same `source` objects as ast.parse()/compile() up to the very last step, then fails in
_find_shebang() with a TypeError for anything that is not exactly `str` or `bytes`.

Run: PYTHONPATH=/tmp/huntwt34/src /venv/bin/python repro.py
"""
import ast
import sys

import python_minifier

source = b'#!/usr/bin/env python\nvalue = 1\n'
failed = 0
for label, obj in [
    ('bytes', source),
    ('bytearray', bytearray(source)),
    ('memoryview', memoryview(source)),
    ('ast.Module', ast.parse(source)),
]:
    compile(obj, 'source', 'exec')  # the interpreter accepts all of them
    try:
        result = repr(python_minifier.minify(obj))
    except Exception as e:
        result = 'raises %s: %s' % (type(e).__name__, e)
        failed += 1
    try:
        without = repr(python_minifier.minify(obj, preserve_shebang=False))
    except Exception as e:
        without = 'raises %s: %s' % (type(e).__name__, e)
    print('%-11s default: %s' % (label, result))
    print('%-11s preserve_shebang=False: %s' % ('', without))

if failed:
    print('DEFECT: %d source types that compile() accepts are rejected, after all the work was done, by the shebang search' % failed)
    sys.exit(1)
print('ok')
