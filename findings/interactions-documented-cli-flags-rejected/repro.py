"""
Three command line flags are documented in docs/source/transforms/*.rst with a spelling
the pyminify argument parser rejects.

Run: PYTHONPATH=/tmp/huntwt31/src /venv/bin/python repro.py
"""
import os
import re
import subprocess
import sys
import tempfile

DOCS = '/tmp/huntwt31/docs/source/transforms'

documented = set()
for name in os.listdir(DOCS):
    if name.endswith('.rst'):
        with open(os.path.join(DOCS, name)) as f:
            documented.update(re.findall(r'``(--[A-Za-z_-]+)', f.read()))

with tempfile.NamedTemporaryFile('w', suffix='.py', delete=False) as f:
    f.write('def f():\n    return None\n')
    path = f.name

rejected = []
for flag in sorted(documented):
    args = [sys.executable, '-m', 'python_minifier', path, flag]
    if flag.startswith('--preserve') and 'shebang' not in flag:
        args.append('some_name')
    p = subprocess.run(args, capture_output=True, text=True, env=dict(os.environ, PYTHONPATH='/tmp/huntwt31/src'))
    if p.returncode != 0:
        rejected.append((flag, p.stderr.strip().splitlines()[-1]))
os.unlink(path)

for flag, message in rejected:
    print('documented flag %-40s -> %s' % (flag, message))

if rejected:
    print('DEFECT PRESENT: documented flags are not accepted by pyminify')
    sys.exit(1)
print('all documented flags accepted')
