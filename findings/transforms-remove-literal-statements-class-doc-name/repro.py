"""
PYTHONPATH=/tmp/huntwt23/src /venv/bin/python repro.py

remove_literal_statements keeps the *module* docstring when the bare name __doc__ is used, but a use of __doc__
inside a class body refers to the *class* docstring, which is still removed - the name then silently resolves to
the module's __doc__ instead.
"""
import os
import subprocess
import sys
import tempfile

import python_minifier

SRC = '''"""module doc"""
class Command:
    """Frobnicate the widget."""
    help = __doc__          # class-level __doc__ : the class docstring
    usage = 'usage: ' + __doc__.lower()
print(Command.help)
print(Command.usage)
'''


def run(code):
    f = tempfile.NamedTemporaryFile('w', suffix='.py', delete=False)
    f.write(code)
    f.close()
    p = subprocess.run([sys.executable, f.name], stdout=subprocess.PIPE, stderr=subprocess.PIPE, universal_newlines=True)
    os.unlink(f.name)
    return p.returncode, p.stdout, p.stderr.strip().splitlines()[-1:]


minified = python_minifier.minify(SRC, remove_literal_statements=True)
print(minified)
a, b = run(SRC), run(minified)
print('original:', a)
print('minified:', b)
if a != b:
    print('DEFECT: the class docstring was removed although the class body reads __doc__')
    sys.exit(1)
print('no difference')
